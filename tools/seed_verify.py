#!/usr/bin/env python3
"""Confirm a seeded change and run checks against it.
usage: tools/seed_verify.py <srcdir with patch.diff, demo.py, notes.md> <name> <tier> <ID> [<ID>...]
Everything happens in a scratch worktree of /repo under /tmp which is removed afterwards.
Writes /verif/seeded/<name>/{patch.diff,demo.py,notes.md,meta.json}."""
import json, os, shutil, subprocess, sys, tempfile, time
src, name, tier, ids = os.path.abspath(sys.argv[1]), sys.argv[2], sys.argv[3], sys.argv[4:]
ROOT = os.path.dirname(os.path.dirname(os.path.abspath(__file__)))
wt = tempfile.mkdtemp(prefix='seedv-', dir='/tmp')
def sh(cmd, **kw):
    return subprocess.run(cmd, shell=True, capture_output=True, text=True, **kw)
meta = {'name': name, 'property': ids[0] if ids else None, 'repo_head': sh('git -C /repo log -1 --format=%h').stdout.strip(),
        'date': time.strftime('%Y-%m-%d %H:%M')}
try:
    assert sh('git -C /repo worktree add -q --detach %s HEAD' % wt).returncode == 0
    env = dict(os.environ, PYTHONPATH=wt)
    d0 = sh('/venv/bin/python %s/demo.py' % src, cwd=wt, env=env, timeout=600)
    meta['demo_without_change_exit'] = d0.returncode
    ap = sh('git -C %s apply %s/patch.diff' % (wt, src))
    meta['patch_applies'] = ap.returncode == 0
    if ap.returncode == 0:
        for attempt in range(3):    # test_run_in_background is timing sensitive under load: retry
            t = sh('/venv/bin/python -m pytest -q -p no:cacheprovider tests 2>&1 | tail -1', cwd=wt, env=env, timeout=900)
            if '339 passed' in t.stdout and '5 failed' in t.stdout:
                break
        meta['tests_with_change'] = t.stdout.strip()
        d1 = sh('/venv/bin/python %s/demo.py' % src, cwd=wt, env=env, timeout=600)
        meta['demo_with_change_exit'] = d1.returncode
        meta['demo_with_change_output'] = (d1.stdout + d1.stderr)[-600:]
        meta['confirmed'] = (d0.returncode == 0 and d1.returncode == 1 and '339 passed' in t.stdout and '5 failed' in t.stdout)
        meta['checks'] = {}
        for i in ids:
            e = dict(env, VERIF_REPO=wt, PYTHONPATH=wt, VERIF_EVIDENCE_DIR=wt + '/.evidence',
                     VERIF_REPLAY_DIR='/tmp/mut-replays')
            t0 = time.time()
            c = sh('./check %s %s' % (i, tier), cwd=ROOT, env=e, timeout=7200)
            lines = [l[:400] for l in c.stdout.splitlines() if any(k in l for k in ('VIOLATION', 'HARNESS-ERROR', 'label=', 'KNOWN-FINDING'))]
            meta['checks']['%s %s' % (i, tier)] = {'exit': c.returncode, 'wall_s': round(time.time() - t0, 1), 'lines': lines[:8]}
finally:
    sh('git -C /repo worktree remove --force %s' % wt)
    shutil.rmtree(wt, ignore_errors=True)
out = os.path.join(ROOT, 'seeded', name)
os.makedirs(out, exist_ok=True)
for f in ('patch.diff', 'demo.py', 'notes.md'):
    if os.path.exists(os.path.join(src, f)):
        shutil.copy(os.path.join(src, f), out)
old = {}
mp = os.path.join(out, 'meta.json')
if os.path.exists(mp):
    old = json.load(open(mp))
    oc = old.get('checks', {}); oc.update(meta.get('checks', {})); meta['checks'] = oc
json.dump(meta, open(mp, 'w'), indent=1)
print(json.dumps(meta, indent=1))
