#!/usr/bin/env python3
"""usage: tools/timing.py [evidence-dir]  -- per-level wall time and completeness of the last run of every check"""
import json
import os
import sys

d = sys.argv[1] if len(sys.argv) > 1 else os.path.join(os.path.dirname(os.path.dirname(os.path.abspath(__file__))), 'evidence')
for f in sorted(os.listdir(d)):
    if not f.endswith('.json'):
        continue
    e = json.load(open(os.path.join(d, f)))
    c = e['coverage']
    print('%s %s wall=%.0fs exhaustive=%s violations=%d' % (e['property_id'], e['tier'], e['wall_s'], c['exhaustive'],
                                                             e.get('violations', 0) if isinstance(e.get('violations', 0), int) else len(e['violations'])))
    for lv in c.get('levels', []):
        print('    %-34s %6.1fs shards %d/%d structures=%d paths=%d %s' % (
            lv['level'], lv['wall_s'], lv['shards_done'], lv['shards'], lv['structures'], lv['paths'],
            'full' if lv['exhaustive'] else 'PARTIAL truncated=%s' % lv['truncated']))
    ps = c.get('post_stage')
    if ps:
        print('    post stage: %s' % json.dumps(ps)[:160])
