#!/bin/sh
# usage: tools/run_all.sh quick|thorough [ids...]  -- runs the registered checks one after the other, prints a summary
cd "$(dirname "$0")/.."
TIER=${1:-quick}; shift
IDS=${@:-C01 C02 C03 C04 C05 C06 C07 C08 C09 C10 C11 C12 C13 C14 C15 C16 C17 C18 C19 C20}
for ID in $IDS; do
  S=$(date +%s)
  ./check $ID $TIER > /tmp/run_all_$ID.$TIER.log 2>&1; RC=$?
  E=$(date +%s)
  echo "$ID $TIER exit=$RC wall=$((E-S))s $(grep -c INCONCLUSIVE /tmp/run_all_$ID.$TIER.log) inconclusive; $(tail -1 /tmp/run_all_$ID.$TIER.log | cut -c1-160)"
done
