#!/usr/bin/env python3
"""Regenerates /verif/MANIFEST.json from the property modules that exist under vf/props."""
import importlib, json, os, sys
ROOT = os.path.dirname(os.path.dirname(os.path.abspath(__file__)))
sys.path.insert(0, ROOT)
NA_REASONS = {}
props = [json.loads(l) for l in open(os.path.join(ROOT, 'properties.jsonl'))]
checks, na = [], []
for p in props:
    pid = p['id']
    path = os.path.join(ROOT, 'vf', 'props', pid.lower() + '.py')
    if not os.path.exists(path):
        na.append({'property_id': pid, 'reason': NA_REASONS.get(pid, 'harness not built yet in this session (planned, see DESIGN.md §3)')})
        continue
    src = open(path).read()
    doc = src.split('"""')[1].strip()
    meta = {}
    mp = os.path.join(ROOT, 'vf', 'props', pid.lower() + '.meta.json')
    if os.path.exists(mp):
        meta = json.load(open(mp))
    checks.append({
        'property_id': pid,
        'quick_cmd': './check %s quick' % pid,
        'thorough_cmd': './check %s thorough' % pid,
        'evidence_file': '/verif/evidence/%s.json' % pid,
        'replay_cmd_template': './check %s --replay {path}' % pid,
        'engine': 'symex',
        'technique': meta.get('technique', 'bounded symbolic execution of the real code, z3 (SMT) decides every path obligation'),
        'level_claimed': {
            'category': 'other',
            'text': meta.get('level_text', 'Bounded symbolic execution of the real sismic code under z3: ' + ' '.join(doc.split())[:900]),
            'design_ref': 'DESIGN.md §3 ' + pid,
        },
        'level_note': meta.get('level_note', 'Holds within the stated bounds only (see evidence.coverage.levels and outside_claim). Trusted base: z3, '
                               'the proxy engine vf/symex.py, the reference oracle of the harness, CPython. Strings, chart structure and operation '
                               'kinds are concrete per path (solver-enumerated); reals are exact, not IEEE floats.'),
    })
man = {
    'version': 1,
    'setup_cmd': './setup.sh',
    'hooks': {'guard': 'SISMIC_VERIF', 'enable': 'no hook exists: time source, threading primitives and statechart code are replaced from outside by the harnesses',
              'baseline_off_cmd': 'cd /repo && /venv/bin/python -m pytest -ra -q -p no:cacheprovider --timeout=900 --continue-on-collection-errors',
              'source_commits': [], 'add_only': True},
    'engines': [
        {'name': 'symex', 'path': 'vf/symex.py', 'serves_properties': [c['property_id'] for c in checks],
         'kind_free_text': 'dynamic symbolic execution of the real Python code by proxy objects over z3 (fork at __bool__, '
                           'obligations discharged per path by the solver, DFS by re-execution, concrete replay of every model)'},
        {'name': 'chartgen', 'path': 'vf/chartgen.py', 'serves_properties': [],
         'kind_free_text': 'well-formed statecharts as z3 models (AllSAT over bounded integer arrays), built through the public model API'},
    ],
    'checks': checks,
    'not_applicable': na,
    'notes': 'All checks: exit 0 held on everything explored (INCONCLUSIVE lines name levels cut by the time budget), exit 1 + VIOLATION line = '
             'violation replayed concretely on the real code, exit 3 = harness error. Defects repaired in /repo as "fix:" commits are listed in '
             'known_findings.json (status fixed).',
}
json.dump(man, open(os.path.join(ROOT, 'MANIFEST.json'), 'w'), indent=1)
print('checks', [c['property_id'] for c in checks], 'n/a', len(na))
