#!/usr/bin/env python3
"""Regenerates seeded/INDEX.md from seeded/*/meta.json"""
import glob, json, os
ROOT = os.path.dirname(os.path.dirname(os.path.abspath(__file__)))
rows = []
for mp in sorted(glob.glob(os.path.join(ROOT, 'seeded', '*', 'meta.json'))):
    m = json.load(open(mp))
    name = m['name']
    notes = os.path.join(os.path.dirname(mp), 'notes.md')
    first = ''
    if os.path.exists(notes):
        for l in open(notes):
            l = l.strip().lstrip('#').strip()
            if l:
                first = l[:110]
                break
    for k, v in sorted(m.get('checks', {}).items()):
        lab = ''
        for l in v.get('lines', []):
            if 'label=' in l:
                lab = l.split('label=')[1].split()[0]
                break
        rows.append('| %s | %s | %s | %s | exit %s%s | %s |' % (name, m.get('property'), 'yes' if m.get('confirmed') else 'NO',
                                                     k, v['exit'], (' ' + lab) if lab else '', first.replace('|', '/')))
with open(os.path.join(ROOT, 'seeded', 'INDEX.md'), 'w') as fh:
    fh.write('# Seeded changes and the checks run against them\n\n'
             'confirmed = demo exits 0 without and 1 with the change, and the suite still gives "5 failed, 339 passed, 1 xpassed" '
             '(the tests/ part of the baseline).\nexit 1 = the check reported a replayed VIOLATION (caught); exit 0 = missed; exit 3 = harness error.\n\n'
             '| change | property | confirmed | check | result | what it is |\n|---|---|---|---|---|---|\n' + '\n'.join(rows) + '\n')
print(len(rows), 'rows')
