#!/bin/sh
# usage: tools/mutant.sh <patch.diff> <tier> <ID> [<ID>...]
# Applies a patch to a scratch worktree of /repo (outside /repo and /verif), optionally runs the test
# suite (MUT_TESTS=1), runs the given checks against the worktree, removes the worktree.
# Evidence and replay files of these runs go to a scratch directory, not to /verif/evidence.
set -u
PATCH=$(readlink -f "$1"); TIER=$2; shift 2
WT=$(mktemp -d /tmp/mut-XXXXXX)
git -C /repo worktree add -q --detach "$WT" HEAD || exit 9
cleanup() { git -C /repo worktree remove --force "$WT" 2>/dev/null; rm -rf "$WT"; }
trap cleanup EXIT
git -C "$WT" apply "$PATCH" || { echo "PATCH-DOES-NOT-APPLY"; exit 9; }
if [ "${MUT_TESTS:-0}" = 1 ]; then
  (cd "$WT" && PYTHONPATH="$WT" /venv/bin/python -m pytest -q -p no:cacheprovider tests 2>&1 | tail -1)
fi
cd "$(dirname "$0")/.."
for ID in "$@"; do
  VERIF_REPO="$WT" PYTHONPATH="$WT" VERIF_EVIDENCE_DIR="$WT/.evidence" VERIF_REPLAY_DIR="/tmp/mut-replays" \
    VERIF_BUDGET_SCALE="${VERIF_BUDGET_SCALE:-1}" ./check "$ID" "$TIER" 2>&1 | grep -E "VIOLATION|KNOWN-FINDING|HARNESS-ERROR|exit=|label=" | cut -c1-300
  echo "== $ID exit=$?"
done
