"""Instrumented runs of generated charts through the real Interpreter (shared by C02..C10, C17, C18).

Every state gets `on entry`/`on exit` probes, every transition a guard probe `G(t, event)` and an
action probe `A(t)`.  The real PythonEvaluator compiles and runs these strings.  Guard probes
return one fresh symbolic Boolean per (transition, macro step); action/entry/exit probes append to
a log.  Nothing here reads private interpreter state.
"""
from . import chartgen as cg


class Inst:
    def __init__(self, g, chart, naming='id', order=None, tr_order=None, sends=None, tag='',
                 sc=None, interp_kwargs=None, extra_context=None, guards=True, priorities=None,
                 code_hook=None, guard_key=None, cache_key=None, moved=None):
        from sismic.interpreter import Interpreter
        self.g = g
        self.tag = tag
        self.log = []
        self.step_no = -1
        self.bits = {}
        self.frozen = False          # stability probe: every guard is false
        self.sends = sends or {}     # transition index -> list of (name, kwargs) sent by its action
        self.guard_key = guard_key or (lambda t, k: 'g%d_%d' % (t, k))

        def code(kind, ident):
            if code_hook is not None:
                c = code_hook(kind, ident)
                if c is not None:
                    return c or None
            if kind == 'guard':
                return 'G(%d, event)' % ident if guards else None
            if kind == 'action':
                s = 'A(%d)' % ident
                for nm, kw in self.sends.get(ident, []):
                    s += '\nsend(%r%s)' % (nm, ''.join(', %s=%s' % (k, v) for k, v in kw.items()))
                return s
            if kind == 'entry':
                return "P('en', %d)" % ident
            if kind == 'exit':
                return "P('ex', %d)" % ident
            return None
        if sc is None and cache_key is not None and ('chart', cache_key) in g.cache:
            sc = g.cache[('chart', cache_key)]       # the Statechart is not mutated by interpretation
        if sc is None:
            self.sc, self.trs, self.cm = cg.build(chart, naming, code, order=order, tr_order=tr_order,
                                                  priorities=priorities, moved=moved)
            if cache_key is not None:
                g.cache[('chart', cache_key)] = (self.sc, self.trs, self.cm)
        else:
            self.sc, self.trs, self.cm = sc
            if priorities is not None:
                for t, p in zip(self.trs, priorities):
                    t.priority = p
        ctx = {'G': self._G, 'A': self._A, 'P': self._P}
        ctx.update(extra_context or {})
        self.it = Interpreter(self.sc, initial_context=ctx, **(interp_kwargs or {}))

    # ---- probes
    def bit(self, t, k=None):
        k = self.step_no if k is None else k
        key = (t, k)
        if key not in self.bits:
            self.bits[key] = self.g.bool(self.guard_key(t, k))
        return self.bits[key]

    def _G(self, t, event):
        self.log.append(('guard', t, None if event is None else event.name))
        if self.frozen:
            return False
        return self.bit(t)

    def _A(self, t):
        self.log.append(('act', t))

    def _P(self, what, i):
        self.log.append((what, self.cm.names[i]))

    # ---- driving
    def init(self):
        self.step_no = -1
        self.log.clear()
        return self.it.execute_once()

    def step(self, k, event=None, frozen=False, **params):
        """queue `event` (name or None), run one macro step; returns (macrostep|None, exception|None, log)"""
        self.step_no = k
        self.frozen = frozen
        del self.log[:]
        if event is not None:
            self.it.queue(event, **params)
        try:
            st = self.it.execute_once()
            err = None
        except Exception as e:     # engine exceptions are BaseException and pass through
            st, err = None, e
        self.frozen = False
        return st, err, list(self.log)

    def tindex(self, x):
        for i, t in enumerate(self.trs):
            if t is x:
                return i
        return -1

    def conf_idx(self):
        return sorted(self.cm.idx[c] for c in self.it.configuration)


def micro_summary(inst, mstep):
    """JSON-able view of a macro step (names, transition indices)"""
    if mstep is None:
        return None
    out = []
    for s in mstep.steps:
        out.append({'t': None if s.transition is None else inst.tindex(s.transition),
                    'ev': None if s.event is None else s.event.name,
                    'ex': list(s.exited_states), 'en': list(s.entered_states),
                    'sent': [e.name for e in s.sent_events]})
    return out
