"""Deterministic cooperative scheduler for the C20 harness.

Real OS threads, one baton: exactly one logical thread runs at any time and a switch can only happen
at a *yield point*.  Which thread runs next is decided by a `chooser(n)` callback -- in the check this is
`Engine.choice`, i.e. the schedule is solver-enumerated structure explored exhaustively up to a preemption
bound.  `threading.Event`, `threading.Thread`, `time.time` and `time.sleep` as seen by
sismic/runner/runner.py are replaced by the shims below.  sleep() and blocking waits are *voluntary*
yields (another runnable thread must be taken and no preemption is counted).
"""
import threading as _T

_RealThread, _RealSem = _T.Thread, _T.Semaphore


class Killed(BaseException):
    pass


class Deadlock(Exception):
    pass


class LThread:
    def __init__(self, name):
        self.name = name
        self.go = _RealSem(0)
        self.state = 'ready'
        self.waitfor = None
        self.exc = None
        self.real = None
        self.kill_sent = False


class Sched:
    def __init__(self, chooser, max_preempt=2, max_switches=400):
        self.chooser = chooser
        self.threads = [LThread('main')]
        self.cur = self.threads[0]
        self.killed = False
        self.preempts = 0
        self.max_preempt = max_preempt
        self.trace = []
        self.switches = 0
        self.max_switches = max_switches
        self.truncated = False
        self.deadlock = False
        self.pending_exc = None

    def thread(self, name):
        for t in self.threads:
            if t.name == name:
                return t
        return None

    def _runnable(self):
        for t in self.threads:
            if t.state == 'blocked' and t.waitfor():
                t.state = 'ready'
        return [t for t in self.threads if t.state == 'ready']

    def _switch_to(self, nxt):
        me = self.cur
        if nxt is me:
            return
        self.switches += 1
        self.cur = nxt
        nxt.go.release()
        me.go.acquire()
        if self.killed and me.name != 'main':
            raise Killed()
        if me.name == 'main' and self.pending_exc is not None:
            exc, self.pending_exc = self.pending_exc, None
            raise exc
        if me.name == 'main' and self.deadlock:
            raise Deadlock('every thread is blocked: %s' % [(t.name, t.state) for t in self.threads])

    def yield_point(self, tag='', voluntary=False):
        if self.killed:
            if self.cur.name != 'main':
                raise Killed()
            return
        if self.switches > self.max_switches:
            self.truncated = True
            if self.cur.name != 'main':
                # hand the baton back to main for good
                self.killed = True
                raise Killed()
            return
        me = self.cur
        run = self._runnable()
        if me.state != 'ready':
            if not run:
                self.deadlock = True
                raise Deadlock('deadlock at %s: %s' % (tag, [(t.name, t.state) for t in self.threads]))
            nxt = run[0] if len(run) == 1 else run[self.chooser(len(run))]
        else:
            others = [t for t in run if t is not me]
            if not others:
                return
            if voluntary:
                nxt = others[0] if len(others) == 1 else others[self.chooser(len(others))]
            else:
                if self.preempts >= self.max_preempt:
                    return
                k = self.chooser(len(others) + 1)
                if k == 0:
                    return
                self.preempts += 1
                nxt = others[k - 1]
        self.trace.append((tag, me.name, nxt.name))
        self._switch_to(nxt)

    def block_until(self, pred, tag=''):
        me = self.cur
        if pred():
            return
        me.state = 'blocked'
        me.waitfor = pred
        self.yield_point(tag)
        me.state = 'ready'

    def spawn(self, fn, name):
        lt = LThread(name)
        self.threads.append(lt)

        def body():
            lt.go.acquire()
            try:
                if not self.killed:
                    fn()
            except Killed:
                pass
            except BaseException as e:
                # includes the engine's path-steering exceptions: they are re-raised in the main thread
                lt.exc = e
                if self.pending_exc is None:
                    self.pending_exc = e
            lt.state = 'done'
            if lt.exc is not None and not self.killed:
                self.killed = True
                m = self.threads[0]
                self.cur = m
                m.go.release()
                return
            if not self.killed:
                run = self._runnable()
                if run:
                    nxt = run[0] if len(run) == 1 else run[self.chooser(len(run))]
                    self.cur = nxt
                    nxt.go.release()
                else:
                    self.deadlock = True
                    self.killed = True
                    m = self.threads[0]
                    self.cur = m
                    m.go.release()
            else:
                self._kill_next()
        lt.real = _RealThread(target=body, daemon=True)
        lt.real.start()
        return lt

    def _kill_next(self):
        for t in self.threads[1:]:
            if t.state != 'done' and not t.kill_sent:
                t.kill_sent = True
                self.cur = t
                t.go.release()
                return
        m = self.threads[0]
        self.cur = m
        m.go.release()

    def shutdown(self):
        """called by main at the end of a path: unwind every unfinished thread"""
        self.killed = True
        pend = [t for t in self.threads[1:] if t.state != 'done']
        if pend and self.cur is self.threads[0]:
            self._kill_next()
            self.threads[0].go.acquire()
        for t in self.threads[1:]:
            if t.real is not None:
                t.real.join(2)


SCHED = None


class ShimEvent:
    def __init__(self):
        self._f = False
        self._waiters = 0
        self.on_gate = None      # harness hook: a waiter is let through (at the moment it is released)

    def is_set(self):
        if SCHED:
            SCHED.yield_point('is_set')
        return self._f

    def set(self):
        if SCHED:
            SCHED.yield_point('set:before')
        if not self._f and self._waiters and self.on_gate:
            self.on_gate()       # like threading.Event: a waiter released by set() proceeds even if clear() follows
        self._f = True
        if SCHED:
            SCHED.yield_point('set')

    def clear(self):
        if SCHED:
            SCHED.yield_point('clear:before')
        self._f = False
        if SCHED:
            SCHED.yield_point('clear')

    def wait(self, timeout=None):
        if SCHED:
            SCHED.yield_point('wait')
            if self._f:
                if self.on_gate:
                    self.on_gate()
            else:
                self._waiters += 1
                released = [False]

                def pred():
                    if self._f:
                        released[0] = True
                    return released[0]       # once released, stay released (threading.Event semantics)
                SCHED.block_until(pred, 'wait')
                self._waiters -= 1
        return True if SCHED else self._f


class ShimThread:
    n = 0

    def __init__(self, target=None, args=(), kwargs=None, daemon=None, name=None):
        self._target = target
        self._lt = None

    def start(self):
        if self._lt is not None:
            raise RuntimeError('threads can only be started once')
        ShimThread.n += 1
        self._lt = SCHED.spawn(self._target, 'T%d' % ShimThread.n)
        SCHED.yield_point('start')

    def is_alive(self):
        if SCHED and self._lt:
            SCHED.yield_point('is_alive')
        return self._lt is not None and self._lt.state != 'done'

    def join(self, timeout=None):
        if SCHED and self._lt:
            SCHED.block_until(lambda: self._lt.state == 'done', 'join')


class ShimThreading:
    Event = ShimEvent
    Thread = ShimThread


class ShimTime:
    now = 0.0

    @staticmethod
    def time():
        return ShimTime.now

    @staticmethod
    def sleep(s):
        if SCHED:
            SCHED.yield_point('sleep', voluntary=True)
