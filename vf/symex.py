"""E1 -- dynamic symbolic execution of the real sismic code by proxy objects over z3.

The code under test runs natively. Values handed out by ``Engine.bool/int/real`` are proxy
objects that build z3 terms; ``__bool__`` is the fork point (feasibility of both sides is
decided by z3 under the path condition), ``__hash__/__index__/__int__`` realise a value
(the solver proposes one, its negation is kept as the alternative).  Paths are explored
depth first by re-execution with a decision prefix.  ``Engine.prove`` discharges an
*obligation*: the negation of a z3 formula is checked under the path condition; ``unsat``
means the obligation holds for every value of every symbolic input on this path.

Concrete mode (``Engine(concrete={...})``): the same harness is run on plain Python values
taken from a dictionary (a solver model written to a replay file).  No proxy object and no
z3 term is created in that mode -- this is the replay against the real code.
"""
import time as _time
from fractions import Fraction

try:  # concrete replays work without z3
    import z3
except Exception:  # pragma: no cover
    z3 = None


class Infeasible(BaseException):
    """Path-steering exception (never caught by ``except Exception`` in the code under test)."""


class PathEnd(BaseException):
    """Raised to abandon the current path after an obligation failed."""


class Budget(BaseException):
    """Raised when the exploration budget of a job is exhausted."""


class PathTimeout(BaseException):
    """One path of the code under test ran longer than the per-path limit (a hang is a violation, not a pass)."""


def _arm(seconds):
    import signal
    import threading
    if not seconds or threading.current_thread() is not threading.main_thread():
        return False

    def handler(signum, frame):
        raise PathTimeout()
    signal.signal(signal.SIGALRM, handler)
    signal.setitimer(signal.ITIMER_REAL, seconds)
    return True


def _disarm(armed):
    if armed:
        import signal
        signal.setitimer(signal.ITIMER_REAL, 0)


# ----------------------------------------------------------------------------- proxies
class SymBool:
    __slots__ = ('g', 'e')

    def __init__(self, g, e):
        self.g = g
        self.e = e

    def __bool__(self):
        return self.g.branch(self.e)

    def __eq__(self, o):
        if isinstance(o, (SymBool, bool)):
            return SymBool(self.g, self.e == _b(o))
        return NotImplemented

    def __ne__(self, o):
        if isinstance(o, (SymBool, bool)):
            return SymBool(self.g, self.e != _b(o))
        return NotImplemented

    def __and__(self, o):
        return SymBool(self.g, z3.And(self.e, _b(o)))
    __rand__ = __and__

    def __or__(self, o):
        return SymBool(self.g, z3.Or(self.e, _b(o)))
    __ror__ = __or__

    def __invert__(self):
        return SymBool(self.g, z3.Not(self.e))

    def __hash__(self):
        return hash(bool(self))

    def __repr__(self):
        return 'SymBool(%s)' % self.e.sexpr()[:60]

    def __copy__(self):
        return self

    def __deepcopy__(self, memo):
        return self

    def __reduce__(self):
        return (_rebuild, ('b', self.e.serialize()))


def _b(o):
    if isinstance(o, SymBool):
        return o.e
    return bool(o)


def _n(o):
    """numeric operand -> z3 term / python number"""
    if isinstance(o, SymNum):
        return o.e
    if isinstance(o, Fraction):
        return z3.Q(o.numerator, o.denominator)
    if isinstance(o, bool):
        return int(o)
    if isinstance(o, float):
        f = Fraction(o)
        return z3.Q(f.numerator, f.denominator)
    return o


class SymNum:
    __slots__ = ('g', 'e')
    _isreal = False

    def __init__(self, g, e):
        self.g = g
        self.e = e

    def _mk(self, e):
        if z3.is_real(e):
            return SymReal(self.g, e)
        return SymInt(self.g, e)

    def _ok(self, o):
        return isinstance(o, (SymNum, int, float, Fraction))

    def __lt__(self, o):
        return SymBool(self.g, self.e < _n(o)) if self._ok(o) else NotImplemented

    def __le__(self, o):
        return SymBool(self.g, self.e <= _n(o)) if self._ok(o) else NotImplemented

    def __gt__(self, o):
        return SymBool(self.g, self.e > _n(o)) if self._ok(o) else NotImplemented

    def __ge__(self, o):
        return SymBool(self.g, self.e >= _n(o)) if self._ok(o) else NotImplemented

    def __eq__(self, o):
        if not self._ok(o):
            return False
        return SymBool(self.g, self.e == _n(o))

    def __ne__(self, o):
        if not self._ok(o):
            return True
        return SymBool(self.g, self.e != _n(o))

    def __add__(self, o):
        return self._mk(self.e + _n(o)) if self._ok(o) else NotImplemented
    __radd__ = __add__

    def __sub__(self, o):
        return self._mk(self.e - _n(o)) if self._ok(o) else NotImplemented

    def __rsub__(self, o):
        return self._mk(_n(o) - self.e) if self._ok(o) else NotImplemented

    def __mul__(self, o):
        return self._mk(self.e * _n(o)) if self._ok(o) else NotImplemented
    __rmul__ = __mul__

    def __neg__(self):
        return self._mk(-self.e)

    def __pos__(self):
        return self

    def __abs__(self):
        return self._mk(z3.If(self.e >= 0, self.e, -self.e))

    def __bool__(self):
        return self.g.branch(self.e != 0)

    def __hash__(self):
        if self.g.const_hash:
            # every symbolic number hashes alike: dict/set membership is then decided by __eq__,
            # i.e. by a fork on equality, not by realising a value.  Only sound when all keys of
            # the container are symbolic (the harness opts in).
            return 0
        return hash(self.g.realize(self.e))

    def __repr__(self):
        # never use z3's pretty printer here: the code under test formats values into error
        # messages (e.g. Event.__getattr__), and the printer takes seconds on long sums
        return '%s(%s)' % (type(self).__name__, self.e.sexpr()[:60])

    def __copy__(self):
        return self

    def __deepcopy__(self, memo):
        return self

    def __reduce__(self):
        return (_rebuild, ('r' if self._isreal else 'i', self.e.serialize()))

    def __format__(self, spec):
        return repr(self)


class SymInt(SymNum):
    __slots__ = ()

    def __index__(self):
        return self.g.realize(self.e)
    __int__ = __index__

    def __float__(self):
        return float(self.g.realize(self.e))


class SymReal(SymNum):
    __slots__ = ()
    _isreal = True

    def __float__(self):
        # the code under test asks for a double: representative values that are *not* exactly representable come
        # first, so that a lossy conversion of an exact quantity is seen to be lossy
        return float(self.g.realize(self.e, inexact_first=True))

    def __round__(self, n=None):
        return round(float(self), n)


_CURRENT = [None]   # engine used when proxies are rebuilt by pickle


def _rebuild(kind, ser):
    g = _CURRENT[0]
    e = z3.deserialize(ser)
    return {'b': SymBool, 'i': SymInt, 'r': SymReal}[kind](g, e)


# ------------------------------------------------- connectives usable in both modes
def _anysym(xs):
    for x in xs:
        if isinstance(x, SymBool):
            return x.g
    return None


def And(*xs):
    if len(xs) == 1 and isinstance(xs[0], (list, tuple)):
        xs = tuple(xs[0])
    g = _anysym(xs)
    if g is None:
        return all(bool(x) for x in xs)
    ys = []
    for x in xs:
        if isinstance(x, SymBool):
            ys.append(x.e)
        elif not x:
            return False
    return SymBool(g, z3.And(ys)) if len(ys) != 1 else SymBool(g, ys[0])


def Or(*xs):
    if len(xs) == 1 and isinstance(xs[0], (list, tuple)):
        xs = tuple(xs[0])
    g = _anysym(xs)
    if g is None:
        return any(bool(x) for x in xs)
    ys = []
    for x in xs:
        if isinstance(x, SymBool):
            ys.append(x.e)
        elif x:
            return True
    return SymBool(g, z3.Or(ys)) if len(ys) != 1 else SymBool(g, ys[0])


def Not(x):
    if isinstance(x, SymBool):
        return SymBool(x.g, z3.Not(x.e))
    return not x


def Implies(a, b):
    return Or(Not(a), b)


def Iff(a, b):
    if isinstance(a, SymBool) or isinstance(b, SymBool):
        g = a.g if isinstance(a, SymBool) else b.g
        return SymBool(g, _b(a) == _b(b))
    return bool(a) == bool(b)


def Ite(c, a, b):
    """numeric/boolean if-then-else over possibly symbolic operands"""
    if isinstance(c, SymBool):
        if isinstance(a, (SymBool, bool)) and isinstance(b, (SymBool, bool)):
            return SymBool(c.g, z3.If(c.e, _b(a), _b(b)))
        e = z3.If(c.e, _n(a), _n(b))
        return SymReal(c.g, e) if z3.is_real(e) else SymInt(c.g, e)
    return a if c else b


def Eq(a, b):
    """equality as a formula (never forks); works for numbers and booleans in both modes"""
    if isinstance(a, SymNum):
        return a == b
    if isinstance(b, SymNum):
        return b == a
    if isinstance(a, SymBool) or isinstance(b, SymBool):
        return Iff(a, b)
    return a == b


def _install_math_shims():
    """stdlib numeric predicates that would force a concrete float out of a symbolic quantity are given their
    mathematical definition over exact reals instead (environment stub; only `math.isclose` so far)"""
    import math
    if getattr(math.isclose, '_vf_shim', False):
        return
    orig = math.isclose

    def isclose(a, b, *, rel_tol=1e-09, abs_tol=0.0):
        if not (isinstance(a, SymNum) or isinstance(b, SymNum)):
            return orig(a, b, rel_tol=rel_tol, abs_tol=abs_tol)
        g = a.g if isinstance(a, SymNum) else b.g
        d = abs(a - b)
        aa, ab = abs(a), abs(b)
        big = Ite(aa >= ab, aa, ab)
        tol = Ite(Fraction(rel_tol) * big >= Fraction(abs_tol), Fraction(rel_tol) * big, Fraction(abs_tol))
        # the real function computes in doubles: values within 0.1 % of the tolerance boundary are left out (there the
        # exact-real answer and the double answer may differ and a model would not replay)
        lo, hi = tol * Fraction(999, 1000), tol * Fraction(1001, 1000)
        g.assume(Or(d <= lo, d >= hi))
        return d <= lo
    isclose._vf_shim = True
    math.isclose = isclose


def is_sym(x):
    return isinstance(x, (SymBool, SymNum))


# ----------------------------------------------------------------------------- engine
class Violation:
    def __init__(self, label, info, values, replayed=None):
        self.label = label
        self.info = info
        self.values = values
        self.replayed = replayed

    def as_dict(self):
        return {'label': self.label, 'info': self.info, 'values': self.values}


class Stats:
    FIELDS = ('paths', 'infeasible', 'obligations', 'discharged', 'trivial', 'unknown',
              'solver_calls', 'solver_s', 'branches', 'realizations', 'truncated', 'capped')

    def __init__(self):
        for f in self.FIELDS:
            setattr(self, f, 0)
        self.witnesses = {}

    def as_dict(self):
        d = {f: getattr(self, f) for f in self.FIELDS}
        d['solver_s'] = round(d['solver_s'], 3)
        d['witnesses'] = dict(self.witnesses)
        return d

    def merge(self, d):
        for f in self.FIELDS:
            setattr(self, f, getattr(self, f) + d.get(f, 0))
        for k, v in d.get('witnesses', {}).items():
            self.witnesses[k] = self.witnesses.get(k, 0) + v


def _enc(v):
    """python value -> JSON value (exact)"""
    if isinstance(v, bool) or isinstance(v, int):
        return v
    if isinstance(v, Fraction):
        return v.numerator if v.denominator == 1 else '%d/%d' % (v.numerator, v.denominator)
    return v


def _dec(v):
    if isinstance(v, str) and '/' in v:
        p, q = v.split('/')
        return Fraction(int(p), int(q))
    return v


class Engine:
    """One instance explores all paths of one harness call (symbolic mode) or runs it once
    on given values (concrete mode)."""

    def __init__(self, concrete=None, timeout_ms=10000, seed=0, max_paths=None, deadline=None):
        self.concrete = None if concrete is None else {k: _dec(v) for k, v in concrete.items()}
        self.symbolic = concrete is None
        self.stats = Stats()
        self.violations = []
        self.samples = []
        self.max_paths = max_paths
        self.deadline = deadline
        self.path_log = None
        self.unknown_labels = []
        self.const_hash = False
        _install_math_shims()
        self.max_values = 6          # alternatives explored per forced concrete value
        self.path_timeout = 30.0      # seconds; a path of the real code normally takes milliseconds
        self.xcheck_left = 0
        self.xchecks = []
        self.cache = {}         # harness-owned, survives across the paths of this engine
        if self.symbolic:
            self.solver = z3.Solver()
            self.solver.set('timeout', timeout_ms)
            self.solver.set('random_seed', seed & 0x7fffffff)
            self.prefix = []
            self.trace = []
            self.pos = 0
            self.model = None
            self.decl = {}      # name -> (kind, z3 const) declared on the current path
            self.rcache = {}
            self.bcache = {}
            _CURRENT[0] = self
        else:
            self.missing = []
            self.used = {}

    # ---- inputs
    def bool(self, name):
        if not self.symbolic:
            return bool(self._cval(name, False))
        c = z3.Bool(name)
        self.decl[name] = ('b', c)
        return SymBool(self, c)

    def int(self, name, lo=None, hi=None):
        if not self.symbolic:
            return int(self._cval(name, lo if lo is not None else 0))
        c = z3.Int(name)
        self.decl[name] = ('i', c)
        if lo is not None:
            self._add(c >= lo)
        if hi is not None:
            self._add(c <= hi)
        return SymInt(self, c)

    def real(self, name, lo=None, hi=None):
        if not self.symbolic:
            v = self._cval(name, lo if lo is not None else 0)
            return Fraction(v)
        c = z3.Real(name)
        self.decl[name] = ('r', c)
        if lo is not None:
            self._add(c >= _n(lo))
        if hi is not None:
            self._add(c <= _n(hi))
        return SymReal(self, c)

    def choice(self, name, n):
        """solver-enumerated structure: an integer in range(n), concrete on every path"""
        if n <= 0:
            raise Infeasible()
        if not self.symbolic:
            v = int(self._cval(name, 0))
            if not 0 <= v < n:
                raise Infeasible()
            return v
        if self.pos < len(self.prefix):
            d = self.prefix[self.pos]
            assert d[0] == 'c', (d, name)
            v = d[1]
        else:
            v = 0
        self.pos += 1
        self.trace.append(['c', v, n, name])
        self.decl[name] = ('c', v)
        return v

    def _cval(self, name, default):
        if name in self.concrete:
            v = self.concrete[name]
        else:
            self.missing.append(name)
            v = default
        self.used[name] = v
        return v

    # ---- solver plumbing
    def _add(self, c):
        self.solver.add(c)
        if self.model is not None:
            try:
                if not z3.is_true(self.model.eval(c, model_completion=True)):
                    self.model = None
            except z3.Z3Exception:
                self.model = None

    def _check(self, *a):
        t0 = _time.perf_counter()
        r = self.solver.check(*a)
        self.stats.solver_s += _time.perf_counter() - t0
        self.stats.solver_calls += 1
        return r

    def _ensure_model(self):
        if self.model is None:
            r = self._check()
            if r == z3.sat:
                self.model = self.solver.model()
            elif r == z3.unsat:
                raise Infeasible()
            else:
                self.stats.unknown += 1
                self.unknown_labels.append('path-condition')
                raise Infeasible()
        return self.model

    def assume(self, c):
        if isinstance(c, SymBool):
            self._add(c.e)
            # an unsatisfiable assumption ends the path
            self._ensure_model()
        elif not c:
            raise Infeasible()

    def branch(self, cond):
        if cond.num_args() > 0:
            cond = z3.simplify(cond)
        if z3.is_true(cond):
            return True
        if z3.is_false(cond):
            return False
        cid = cond.get_id()
        if cid in self.bcache:          # same formula already decided on this path
            return self.bcache[cid]
        val = self._branch(cond)
        self.bcache[cid] = val
        return val

    def _branch(self, cond):
        self.stats.branches += 1
        if self.pos < len(self.prefix):
            d = self.prefix[self.pos]
            self.pos += 1
            assert d[0] == 'b', d
            val = d[1]
            self.solver.add(cond if val else z3.Not(cond))
            self.model = None
            self.trace.append(['b', val, d[2]])
            return val
        m = self._ensure_model()
        mv = z3.is_true(m.eval(cond, model_completion=True))
        other = z3.Not(cond) if mv else cond
        r = self._check(other)
        self.pos += 1
        if r == z3.sat:
            # both sides feasible: follow the model side first (model stays valid)
            self.trace.append(['b', mv, True])
            self.solver.add(cond if mv else z3.Not(cond))
            return mv
        if r == z3.unknown:
            self.stats.unknown += 1
            self.unknown_labels.append('branch')
        self.trace.append(['b', mv, False])
        self.solver.add(cond if mv else z3.Not(cond))
        return mv

    def realize(self, expr, inexact_first=False):
        expr = z3.simplify(expr)
        if z3.is_int_value(expr):
            return expr.as_long()
        if z3.is_rational_value(expr):
            return Fraction(expr.numerator_as_long(), expr.denominator_as_long())
        key = expr.get_id()
        if key in self.rcache:
            return self.rcache[key]
        self.stats.realizations += 1
        if self.pos < len(self.prefix):
            d = self.prefix[self.pos]
            assert d[0] == 'v', d
            excluded = d[2]
            fixed = d[1]
        else:
            excluded = ()
            fixed = None
        self.pos += 1
        if fixed is not None:
            v = fixed
            self.solver.add(expr == _n(v))
            self.model = None
        else:
            for x in excluded:
                self._add(expr != _n(x))
            m = self._ensure_model()
            v = _zval(m.eval(expr, model_completion=True))
            if inexact_first and isinstance(v, (int, Fraction)) and float(v) == v:
                for delta in (Fraction(1, 3), Fraction(1, 7)):
                    cand = Fraction(v) + delta
                    if cand not in excluded and self._check(expr == _n(cand)) == z3.sat:
                        v = cand
                        self.model = None
                        break
            self.solver.add(expr == _n(v))
            try:
                if not z3.is_true(m.eval(expr == _n(v), model_completion=True)):
                    self.model = None
            except z3.Z3Exception:
                self.model = None
        self.trace.append(['v', v, excluded])
        self.rcache[key] = v
        return v

    # ---- obligations
    def prove(self, cond, label, info=None):
        """Obligation: cond must hold for every value of the symbolic inputs on this path."""
        if cond is True:          # fast path: decided concretely on this path
            st = self.stats
            st.obligations += 1
            st.discharged += 1
            if self.symbolic:
                st.trivial += 1
            return True
        return self.prove_all([(label, cond, info)])

    def prove_all(self, items):
        """items: (label, cond, info) triples discharged with a single solver query."""
        items = [(it + (None,))[:3] for it in items]
        self.stats.obligations += len(items)
        if not self.symbolic:
            for label, cond, info in items:
                if not cond:
                    self.violations.append(Violation(label, _info(info), dict(self.used)))
                    raise PathEnd()
            self.stats.discharged += len(items)
            return True
        sym = []
        for label, cond, info in items:
            if isinstance(cond, SymBool):
                sym.append((label, cond, info))
            elif not cond:
                self._violate(label, info, None)
            else:
                self.stats.trivial += 1
                self.stats.discharged += 1
        if not sym:
            return True
        neg = z3.Not(z3.And([c.e for _, c, _ in sym])) if len(sym) > 1 else z3.Not(sym[0][1].e)
        r = self._check(neg)
        if r == z3.unsat:
            self.stats.discharged += len(sym)
            if self.xcheck_left > 0:
                # keep the query for the second solver (cross-check of the encoding, DESIGN §1.8)
                self.xcheck_left -= 1
                s2 = z3.Solver()
                s2.add(self.solver.assertions())
                s2.add(neg)
                self.xchecks.append((sym[0][0], s2.to_smt2()))
            return True
        if r == z3.unknown:
            self.stats.unknown += len(sym)
            self.unknown_labels.append(sym[0][0])
            return None
        m = self.solver.model()
        for label, cond, info in sym:
            if not z3.is_true(m.eval(cond.e, model_completion=True)):
                self._violate(label, info, m)
        raise AssertionError('sat model falsifies no conjunct')   # pragma: no cover

    def _violate(self, label, info, model):
        if model is None:
            model = self._ensure_model()
        self.violations.append(Violation(label, _info(info), self.assignment(model)))
        raise PathEnd()

    def fail(self, label, info=None):
        """unconditional violation on this path (oracle decided concretely)"""
        return self.prove(False, label, info)

    def witness(self, label, cond=True):
        """record that a situation is reachable on a feasible path (vacuity guard)"""
        if label in self.stats.witnesses:
            return True        # one solver query per label and structure is enough
        if isinstance(cond, SymBool):
            if self._check(cond.e) != z3.sat:
                return False
        elif not cond:
            return False
        self.stats.witnesses[label] = self.stats.witnesses.get(label, 0) + 1
        return True

    def assignment(self, model=None):
        """complete concrete assignment of every input declared on this path"""
        if not self.symbolic:
            return {k: _enc(v) for k, v in self.used.items()}
        if model is None:
            model = self._ensure_model()
        out = {}
        for name, (kind, c) in self.decl.items():
            if kind == 'c':
                out[name] = c
            else:
                out[name] = _enc(_zval(model.eval(c, model_completion=True)))
        return out

    def sample(self, obj):
        if len(self.samples) < 3:
            self.samples.append(obj)

    # ---- exploration
    def explore(self, fn):
        """run fn(self) once per feasible path; returns number of completed paths"""
        assert self.symbolic
        self.prefix = []
        while True:
            if self.deadline is not None and _time.time() > self.deadline:
                self.stats.truncated += 1
                return False
            if self.max_paths is not None and self.stats.paths >= self.max_paths:
                self.stats.truncated += 1
                return False
            self.solver.push()
            self.trace = []
            self.pos = 0
            self.rcache = {}
            self.bcache = {}
            self.decl = {}
            self.model = None
            armed = _arm(self.path_timeout)
            try:
                fn(self)
                self.stats.paths += 1
            except Infeasible:
                self.stats.infeasible += 1
            except PathEnd:
                self.stats.paths += 1
            except PathTimeout:
                _disarm(armed)
                self.stats.paths += 1
                try:
                    vals = self.assignment()
                except BaseException:
                    vals = {k: v[1] for k, v in self.decl.items() if v[0] == 'c'}
                self.violations.append(Violation('path_does_not_terminate', {'limit_s': self.path_timeout}, vals))
            finally:
                _disarm(armed)
                self.solver.pop()
            tr = self.trace
            while tr:
                d = tr[-1]
                if d[0] == 'b' and d[2]:
                    tr[-1] = ['b', not d[1], False]
                    break
                if d[0] == 'v' and d[1] is not None:
                    if len(d[2]) + 1 >= self.max_values:
                        # the code under test forced a concrete value (float(), hash(), index) of an unbounded
                        # symbolic quantity: a few representative values are explored, the rest is reported as not
                        # covered (`capped`), never as passed
                        self.stats.capped += 1
                    else:
                        tr[-1] = ['v', None, tuple(d[2]) + (d[1],)]
                        break
                if d[0] == 'c' and d[1] + 1 < d[2]:
                    tr[-1] = ['c', d[1] + 1, d[2], d[3]]
                    break
                tr.pop()
            if not tr:
                return True
            self.prefix = [tuple(d) for d in tr]

    def run_concrete(self, fn):
        assert not self.symbolic
        armed = _arm(self.path_timeout)
        try:
            fn(self)
            self.stats.paths += 1
            return 'ok'
        except PathEnd:
            self.stats.paths += 1
            return 'violation'
        except PathTimeout:
            self.stats.paths += 1
            self.violations.insert(0, Violation('path_does_not_terminate', {'limit_s': self.path_timeout}, dict(self.used)))
            return 'violation'
        except Infeasible:
            self.stats.infeasible += 1
            return 'infeasible'
        finally:
            _disarm(armed)


def _info(info):
    import json
    if callable(info):
        try:
            info = info()
        except Exception as e:  # pragma: no cover
            return {'info_error': repr(e)}
    try:        # plain data only: the record crosses process boundaries and ends in a JSON replay file
        return json.loads(json.dumps(info, default=str))
    except Exception as e:  # pragma: no cover
        return {'info_error': repr(e)}


def _zval(v):
    if z3.is_int_value(v):
        return v.as_long()
    if z3.is_rational_value(v):
        return Fraction(v.numerator_as_long(), v.denominator_as_long())
    if z3.is_true(v):
        return True
    if z3.is_false(v):
        return False
    if z3.is_algebraic_value(v):
        a = v.approx(20)
        return Fraction(a.numerator_as_long(), a.denominator_as_long())
    raise ValueError('cannot concretise %r' % v)
