"""C17 -- renaming and copying states preserves behaviour.

Unit: Statechart.rename_state and Statechart.copy_from_statechart, then Interpreter.execute_once on the
result.  Two interpreters run in lock step with shared symbolic guard bits: the original chart and (a) the
same chart after renaming a solver-chosen subset of its states with an order-preserving renaming (suffix),
or (b) a host chart into which the chart was plugged with copy_from_statechart and a prefixing
renaming function.  Solver-enumerated: chart (internal transitions, history states), the subset, events.
Obligations: same macro steps modulo the renaming (consumed event, transitions, exits, entries, probe log),
Transition.internal preserved, initial/memory/transition ends follow the renaming.
"""
from .. import chartgen as cg
from ..steplib import Inst

ID = 'C17'
ALL = [cg.BASIC, cg.COMPOUND, cg.ORTH, cg.FINAL, cg.SH, cg.DH]
NOFINAL = [cg.BASIC, cg.COMPOUND, cg.ORTH, cg.SH, cg.DH]
LEVELS = {
    'quick': [
        {'name': 'L1-rename-N3-M2-K1', 'mode': 'rename', 'N': 3, 'M': 2, 'K': 1, 'budget_s': 80},
        {'name': 'L2-rename-N4-M1-K2', 'mode': 'rename', 'N': 4, 'M': 1, 'K': 2, 'subsets': 'few', 'budget_s': 80},
        {'name': 'L3-copy-N3-M2-K2', 'mode': 'copy', 'N': 3, 'M': 2, 'K': 2, 'budget_s': 60},
    ],
    'thorough': [
        {'name': 'L1-rename-N4-M2-K2', 'mode': 'rename', 'N': 4, 'M': 2, 'K': 2, 'budget_s': 2400},
        {'name': 'L2-rename-N5-M1-K2', 'mode': 'rename', 'N': 5, 'M': 1, 'K': 2, 'subsets': 'few', 'budget_s': 1800},
        {'name': 'L3-copy-N4-M2-K2', 'mode': 'copy', 'N': 4, 'M': 2, 'K': 2, 'budget_s': 2400},
        {'name': 'L4-copy-N5-M2-K1', 'mode': 'copy', 'N': 5, 'M': 2, 'K': 1, 'kinds': 'bco', 'budget_s': 1800},
    ],
}
WITNESSES = ['internal_transition_of_renamed_state_fired', 'renamed_initial_or_memory', 'copy_ran_in_host',
             'copy_backward_transition', 'history_in_renamed_chart']
STUBS = ['guards/entry/exit/action probes identify states and transitions by index, so logs are comparable across names']
ASSUMPTIONS = ['renaming = appending a suffix (keeps the lexicographic order of names)', 'guest charts for copy: no final '
               'state (a final child of the guest root ends the guest but not the host: legitimately different)',
               'host: compound root with the replaced basic state as initial child and one sibling']
OUTSIDE = ['charts above the level bounds', 'renamings that change the order of names', 'copying a proper sub-state of the guest']


def shards(level):
    kinds = ALL if level['mode'] == 'rename' else NOFINAL
    if level.get('kinds') == 'bco':
        kinds = [cg.BASIC, cg.COMPOUND, cg.ORTH]
    return cg.split_shards(cg.skeletons(level['N'], kinds), level['M'])


def expand(job, level):
    if 'chart' in job:
        yield job['chart']
        return
    yield from cg.charts(job['skel'], level['M'], nevents=2, targets='free', fix=job.get('fix'))


def canary_job():
    ch = {'N': 3, 'par': [-1, 0, 0], 'kind': [cg.COMPOUND, cg.BASIC, cg.BASIC], 'init': [1, -1, -1],
          'tr': [[1, -1, 1], [1, 2, 2]]}
    return {'chart': ch}, {'name': 'canary', 'mode': 'rename', 'N': 3, 'M': 2, 'K': 1}


def itrace(inst, st, err, skip=()):
    """trace with state indices instead of names"""
    if err is not None:
        return ('error', type(err).__name__)
    if st is None:
        return None
    idx = inst.cm.idx
    out = []
    for ms in st.steps:
        out.append((None if ms.transition is None else inst.tindex(ms.transition),
                    None if ms.event is None else ms.event.name,
                    tuple(idx[x] for x in ms.exited_states if x not in skip),
                    tuple(idx[x] for x in ms.entered_states if x not in skip)))
    return tuple(x for x in out if x[0] is not None or x[2] or x[3] or x[1])


def harness(g, chart, level, canary=False):
    if level['mode'] == 'rename':
        return rename(g, chart, level, canary)
    return copy(g, chart, level)


def lockstep(g, a, b, level, info, skip_b=(), evs='ab'):
    from sismic.exceptions import NonDeterminismError, ConflictingTransitionsError
    ta, tb = itrace(a, a.init(), None), itrace(b, b.init(), None, skip_b)
    g.prove(ta == tb, 'same_initial_step', lambda: dict(info(), orig=str(ta), other=str(tb)))
    fired = set()
    for k in range(level['K']):
        ev = evs[g.choice('ev%d' % k, 2)]
        sa, ea, la = a.step(k, ev)
        sb, eb, lb = b.step(k, ev)
        ta, tb = itrace(a, sa, ea), itrace(b, sb, eb, skip_b)
        g.prove(ta == tb, 'same_macro_step', lambda: dict(info(), event=ev, orig=str(ta), other=str(tb)))
        pa = [(e[0], a.cm.idx[e[1]]) if e[0] in ('en', 'ex') else e[:2] for e in la if e[0] != 'guard']
        pb = [(e[0], b.cm.idx[e[1]]) if e[0] in ('en', 'ex') else e[:2] for e in lb if e[0] != 'guard']
        g.prove(pa == pb, 'same_code_executed', lambda: dict(info(), orig=str(pa), other=str(pb)))
        if ea is not None:
            break
        if sa is not None:
            fired.update(a.tindex(t) for t in sa.transitions)
    return fired


def rename(g, chart, level, canary):
    n = chart['N']
    if level.get('subsets') == 'few':
        masks = [1, 2, (1 << n) - 1, (1 << n) - 2, 5 % (1 << n), 0]
        mask = masks[g.choice('mask', len(masks))]
    else:
        mask = g.choice('mask', 1 << n)
    key = ('c17r', mask)
    if ('chart', key) not in g.cache:
        sc, trs, cm = cg.build(chart, 'id', _code)
        internal_before = [t.internal for t in trs]
        if mask == 0:
            # "shift": every state takes the name of its successor in name order (the last one gets a suffix),
            # applied to a chart that was already executed once -- names are re-used, the order is preserved
            from sismic.interpreter import Interpreter
            warm = Interpreter(sc, initial_context={'G': lambda *a: False, 'A': lambda *a: None, 'P': lambda *a: None})
            warm.execute_once()
            warm.queue('a').execute_once()
            newnames = [cm.names[i + 1] if i + 1 < n else cm.names[i] + 'x' for i in range(n)]
            for i in reversed(range(n)):
                sc.rename_state(cm.names[i], newnames[i])
            mask = (1 << n) - 1
        else:
            newnames = [cm.names[i] + ('x' if mask >> i & 1 else '') for i in range(n)]
            for i in range(n):
                if mask >> i & 1:
                    sc.rename_state(cm.names[i], newnames[i])
        g.cache[('chart', key)] = (sc, trs, cg.CM(dict(chart, names=newnames)), internal_before)
    sc2, trs2, cm2, internal_before = g.cache[('chart', key)]
    a = Inst(g, chart, 'id', cache_key=('c17o',), code_hook=_hook)
    b = Inst(g, chart, 'id', sc=(sc2, trs2, cm2))
    cm = a.cm
    info = lambda: {'chart': cm.describe(), 'renamed': [cm.names[i] for i in range(n) if mask >> i & 1]}   # noqa: E731
    # static facts: ends, initial/memory follow; internal stays internal
    from sismic.model import CompoundState, HistoryStateMixin
    ok = True
    for t, (s, tg, e) in enumerate(cm.tr):
        want_internal = internal_before[t]
        if canary:
            want_internal = not want_internal
        g.prove(trs2[t].internal == want_internal, 'internal_transitions_stay_internal',
                lambda t=t: dict(info(), transition=t, target=trs2[t].target))
        ok = ok and trs2[t].source == cm2.names[s] and trs2[t].target == (None if tg < 0 else cm2.names[tg])
    for i in range(n):
        st = sc2.state_for(cm2.names[i])
        ok = ok and st.name == cm2.names[i] and sc2.parent_for(cm2.names[i]) == cm2.name(cm2.par[i])
        if isinstance(st, CompoundState):
            ok = ok and st.initial == cm2.names[cm.init[i]]
        if isinstance(st, HistoryStateMixin):
            ok = ok and st.memory == cm2.names[cm.init[i]]
        if cm.init[i] >= 0 and mask >> cm.init[i] & 1:
            g.witness('renamed_initial_or_memory')
    g.prove(ok, 'ends_initial_memory_follow_the_renaming', info)
    fired = lockstep(g, a, b, level, info)
    for t in fired:
        if cm.tr[t][1] < 0 and mask >> cm.tr[t][0] & 1:
            g.witness('internal_transition_of_renamed_state_fired')
    if any(k >= cg.SH for k in cm.kind):
        g.witness('history_in_renamed_chart')
    g.sample({'chart': cm.describe(), 'renamed': [cm.names[i] for i in range(n) if mask >> i & 1]})


def _code(kind, ident):
    if kind == 'guard':
        return 'G(%d, event)' % ident
    if kind == 'action':
        return 'A(%d)' % ident
    if kind == 'entry':
        return "P('en', %d)" % ident
    if kind == 'exit':
        return "P('ex', %d)" % ident


def _hook(kind, ident):
    return None


def copy(g, chart, level):
    from sismic.model import Statechart, CompoundState, BasicState
    n = chart['N']
    key = ('c17c',)
    if ('chart', key) not in g.cache:
        guest, gtrs, gcm = cg.build(chart, 'id', _code)
        host = Statechart('host')
        host.add_state(CompoundState('h0', initial='slot'), None)
        host.add_state(BasicState('slot'), 'h0')
        host.add_state(BasicState('zother'), 'h0')
        try:
            host.copy_from_statechart(guest, source=gcm.names[0], replace='slot', renaming_func=lambda s: 'w.' + s)
            err = None
        except Exception as e:
            err = e
        hnames = ['slot'] + ['w.' + x for x in gcm.names[1:]]
        htrs = [None] * len(gtrs)
        import re
        dup = 0
        for t in host.transitions:
            mt = re.match(r'G\((\d+), event\)', t.guard or '')
            if mt:
                if htrs[int(mt.group(1))] is not None:
                    dup += 1
                htrs[int(mt.group(1))] = t
        hcm = cg.CM(dict(chart, names=hnames))
        hcm.idx['h0'] = -1
        hcm.idx['zother'] = -2
        g.cache[('chart', key)] = (host, htrs, hcm, err, dup, len(host.transitions))
    host, htrs, hcm, err, dup, ntr = g.cache[('chart', key)]
    a = Inst(g, chart, 'id', cache_key=('c17o',), code_hook=_hook)
    cm = a.cm
    info = lambda: {'chart': cm.describe(), 'host_states': host.states}   # noqa: E731
    g.prove(err is None, 'copy_succeeds_for_self_contained_guest', lambda: dict(info(), error=repr(err)))
    g.prove(dup == 0 and ntr == len(cm.tr) and all(t is not None for t in htrs), 'every_transition_copied_exactly_once',
            lambda: dict(info(), host_transitions=[(t.source, t.target, t.event) for t in host.transitions]))
    b = Inst(g, chart, 'id', sc=(host, htrs, hcm))
    lockstep(g, a, b, level, info, skip_b=('h0',))
    g.witness('copy_ran_in_host')
    if any(tg >= 0 and tg < s for s, tg, e in cm.tr):
        g.witness('copy_backward_transition')
    g.sample({'chart': cm.describe(), 'mode': 'copy'})
