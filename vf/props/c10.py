"""C10 -- property-statechart monitoring: complete, ordered, fail-fast, non-intrusive.

Unit: Interpreter.attach/bind_property_statechart/_raise_event/execute_once, PropertyStatechartListener,
SynchronizedClock, through the public API.  The monitored chart is generated (probes on entry/exit/action,
an action that sends a delayed event, notifies, sends, notifies (None-valued parameter) in that order); three monitors are attached in this order: a recording
callable, a recording property statechart (never final) and a failing property statechart whose move
to its final state is guarded by a fresh symbolic Boolean per delivered meta-event -- the engine splits on
"the property fails at the k-th meta-event" for every k.  An unmonitored twin with the same guard bits and
clock advances provides the reference run.  Obligations: the delivered stream equals the stream derived
from the twin's macro steps (exactly once, in order -- sends and notifications in the order of the calls in the code --, documented
attributes read the documented way as `event.<name>`, each delivered right after the code it reports), the property clock equals the monitored step time at every delivery, a failure at
delivery k raises PropertyStatechartError out of that call with no monitored code and no delivery after
it, and a run in which no property fails equals the unmonitored run.
"""
from ..symex import Eq
from .. import chartgen as cg
from ..steplib import Inst
from .c09 import step_view, same_values

ID = 'C10'
KINDS = [cg.BASIC, cg.COMPOUND, cg.ORTH, cg.FINAL]
NAMES = ['step started', 'step ended', 'event consumed', 'event sent', 'state exited', 'state entered',
         'transition processed', 'note']
LEVELS = {
    'quick': [
        {'name': 'L1-N3-M1-K2', 'N': 3, 'M': 1, 'K': 2, 'budget_s': 100},
        {'name': 'L2-N3-M2-K1-bco', 'N': 3, 'M': 2, 'K': 1, 'kinds': 'bco', 'budget_s': 90},
        {'name': 'L3-N4-M1-K1-bco', 'N': 4, 'M': 1, 'K': 1, 'kinds': 'bco', 'budget_s': 90},
    ],
    'thorough': [
        {'name': 'L1-N3-M2-K2', 'N': 3, 'M': 2, 'K': 2, 'budget_s': 1200},
        {'name': 'L2-N4-M2-K1', 'N': 4, 'M': 2, 'K': 1, 'budget_s': 1800},
        {'name': 'L3-N4-M1-K2', 'N': 4, 'M': 1, 'K': 2, 'budget_s': 1200},
        {'name': 'L4-N5-M1-K1', 'N': 5, 'M': 1, 'K': 1, 'budget_s': 1200},
    ],
}
WITNESSES = ['property_failed_mid_step', 'property_failed_at_step_started', 'never_failed', 'notify_delivered',
             'event_sent_delivered', 'clock_advanced_between_steps', 'failed_between_two_entries']
STUBS = ['failing property chart: w -> final (directly, or via an eventless second macro step w -> m -> final, alternating) on every meta-event name, guard FAIL() = fresh symbolic Boolean per delivery',
         'recording property chart: internal transition per meta-event name, action REC(event, time)']
ASSUMPTIONS = ['well-formed monitored charts over basic/compound/orthogonal/final states', 'events a / none',
               'the undocumented extra meta-event "delayed event sent" is ignored by the recording listener']
OUTSIDE = ['charts above the bounds of the completed level', 'property statecharts other than the two families',
           'deprecated: binding an Interpreter instead of a Statechart']


def shards(level):
    kinds = KINDS[:3] if level.get('kinds') == 'bco' else KINDS
    return cg.split_shards(cg.skeletons(level['N'], kinds), level['M'], nevents=1)


def expand(job, level):
    if 'chart' in job:
        yield job['chart']
        return
    yield from cg.charts(job['skel'], level['M'], nevents=1, targets='free', fix=job.get('fix'))


def canary_job():
    ch = {'N': 3, 'par': [-1, 0, 0], 'kind': [cg.COMPOUND, cg.BASIC, cg.BASIC], 'init': [1, -1, -1],
          'tr': [[1, 2, 1]]}
    return {'chart': ch}, {'name': 'canary', 'N': 3, 'M': 1, 'K': 1}


def prop_charts(g):
    if 'props' in g.cache:
        return g.cache['props']
    from sismic.model import Statechart, CompoundState, BasicState, FinalState, Transition
    rec = Statechart('recorder')
    rec.add_state(CompoundState('r', initial='w'), None)
    rec.add_state(BasicState('w'), 'r')
    fail = Statechart('failing')
    fail.add_state(CompoundState('r', initial='w'), None)
    fail.add_state(BasicState('w'), 'r')
    fail.add_state(FinalState('f'), 'r')
    # every other meta-event name reaches the final state through an eventless second macro step (w -> m -> f):
    # the property chart must be run to stability on each delivery, not for one macro step only (R8-C10-m1)
    fail.add_state(BasicState('m'), 'r')
    fail.add_transition(Transition('m', 'f'))
    for i, nm in enumerate(NAMES):
        rec.add_transition(Transition('w', None, event=nm, action='REC(event, time)'))
        fail.add_transition(Transition('w', 'm' if i % 2 == 0 else 'f', event=nm, guard='FAIL(event)'))
    g.cache['props'] = (rec, fail)
    return rec, fail


def mview(e):
    """comparable view of a meta-event"""
    d = {}
    for k, v in e.data.items():
        try:        # the documented way to read a meta-event attribute (what a property statechart's guard does)
            va = getattr(e, k)
        except AttributeError:
            va = '<<AttributeError>>'
        if va is not v:
            d[k + ' (read as attribute)'] = repr(va)
        if k == 'event':
            v = None if v is None else [type(v).__name__, v.name, dict(v.data)]
        d[k] = v
    return [e.name, d]


def expected_stream(inst, st, step_time):
    out = [['step started', {'time': step_time}]]
    if st is not None:
        if st.event is not None:
            out.append(['event consumed', {'event': ['Event' if type(st.event).__name__ == 'Event' else type(st.event).__name__,
                                                     st.event.name, dict(st.event.data)]}])
        for ms in st.steps:
            for x in ms.exited_states:
                out.append(['state exited', {'state': x}])
            if ms.transition is not None:
                ev = None if ms.event is None else [type(ms.event).__name__, ms.event.name, dict(ms.event.data)]
                out.append(['transition processed', {'source': ms.transition.source,
                                                     'target': ms.transition.target, 'event': ev}])
            for y in ms.entered_states:
                out.append(['state entered', {'state': y}])
            for e in ms.sent_events:
                if type(e).__name__ == 'MetaEvent':
                    out.append([e.name, dict(e.data)])
                else:
                    out.append(['event sent', {'event': [type(e).__name__, e.name, dict(e.data)]}])
    out.append(['step ended', {}])
    return out


def harness(g, chart, level, canary=False):
    from sismic.interpreter import Interpreter
    from sismic.exceptions import PropertyStatechartError, NonDeterminismError, ConflictingTransitionsError

    recs = {'mon': [], 'twin': []}

    def mkCS(tag):
        def CS(*flags):
            recs[tag].append(flags)
            return True
        return CS

    def hook(kind, ident):
        if kind == 'action':
            if ident == 0:    # a delayed send, a notify, a plain send, a notify in one fragment: their order must be kept
                return ("A(0)\nsend('c', k=1, delay=3)\nnotify('note', k=0)\nsend('b', k=0, res=LOCK())\n"
                        "notify('note', k=9, z=None)")
            return "A(%d)\nnotify('note', k=%d)" % (ident, ident)
        return None
    import threading as _thr
    lock = _thr.Lock()        # an event parameter that cannot be copied: monitors must not need to copy events
    mon = Inst(g, chart, 'id', code_hook=hook, cache_key=('c10',), tag='mon',
               extra_context={'CS': mkCS('mon'), 'cs': [], 'LOCK': lambda: lock})
    if ('inv', 'c10') not in g.cache:       # contracts are added once per cached chart
        mon.sc.state_for(mon.cm.names[0]).invariants.append("CS(sent('note'), sent('b'))")
        g.cache[('inv', 'c10')] = True
    twin = Inst(g, chart, 'id', sc=(mon.sc, mon.trs, mon.cm), tag='twin',
                extra_context={'CS': mkCS('twin'), 'cs': [], 'LOCK': lambda: lock})
    cm = mon.cm
    rec_sc, fail_sc = prop_charts(g)
    heard = []        # recording callable: (view, position in monitored code log)
    recd = []         # recording property chart: (name, property clock)
    nfail = [0]
    failed_at = []

    def code_pos():
        return [e for e in mon.log if e[0] in ('en', 'ex', 'act')]

    def listener(e):
        if e.name == 'delayed event sent':
            return
        if e.name == 'step started':
            started_with.append(list(mon.log))      # monitored code (guards included) run before this delivery
        heard.append((mview(e), code_pos()))
    started_with = []

    def REC(event, time):
        for k in event.data:
            getattr(event, k)       # attribute-style access, None-valued attributes included
        recd.append((event.name, time))

    def FAIL(event):
        nfail[0] += 1
        b = g.bool('f%d' % nfail[0])
        if b:
            failed_at.append((len(heard), len(mon.log), event.name))
            return True
        return False
    mon.it.attach(listener)
    mon.it.bind_property_statechart(rec_sc, interpreter_klass=lambda sc, clock: Interpreter(
        sc, clock=clock, initial_context={'REC': REC}))
    mon.it.bind_property_statechart(fail_sc, interpreter_klass=lambda sc, clock: Interpreter(
        sc, clock=clock, initial_context={'FAIL': FAIL}))
    hist = []
    info = lambda: {'chart': cm.describe(), 'events': hist, 'heard': [h[0] for h in heard][-14:]}   # noqa: E731

    def one(k, ev, adv, first=False):
        del heard[:]
        del recd[:]
        del failed_at[:]
        for inst in (mon, twin):
            inst.it.clock.time = inst.it.clock.time + adv
        now = twin.it.clock.time
        if first:
            ts, terr = twin.init(), None
            mon.step_no = -1
            del mon.log[:]
            try:
                ms, merr = mon.it.execute_once(), None
            except Exception as e:
                ms, merr = None, e
        else:
            ts, terr, _ = twin.step(k, ev)
            ms, merr, _ = mon.step(k, ev)
        if terr is not None:
            if isinstance(terr, (NonDeterminismError, ConflictingTransitionsError)):
                # selection errors: only 'step started' was delivered, the same error escapes
                g.prove(type(merr) is type(terr) or bool(failed_at), 'same_selection_error', info)
                return 'stop'
            g.fail('unexpected_exception_in_unmonitored_run', lambda: dict(info(), exception=repr(terr)))
        for ms_ in (ts.steps if ts is not None else []):
            if ms_.transition is not None and twin.tindex(ms_.transition) == 0:
                # the reference order is the order of the calls in the action code, not what the (same) implementation lists
                g.prove([(e.name, e.data.get('k')) for e in ms_.sent_events] == [('c', 1), ('note', 0), ('b', 0), ('note', 9)],
                        'sent_and_notified_in_the_order_of_the_calls',
                        lambda: dict(info(), listed=[(e.name, e.data.get('k')) for e in ms_.sent_events]))
        exp = expected_stream(twin, ts, now)
        if canary:
            exp = exp[:-1]
        got = [h[0] for h in heard]
        if failed_at:
            nh, nlog, evname = failed_at[0]
            g.prove(isinstance(merr, PropertyStatechartError), 'failure_raises_property_error',
                    lambda: dict(info(), error=repr(merr)))
            g.prove_all([
                ('stream_prefix_until_failure', same_values(got, exp[:len(got)]) if len(got) <= len(exp) else False,
                 lambda: dict(info(), expected=str(exp))),
                ('no_delivery_after_failure', len(heard) == nh, info),
                ('no_monitored_code_after_failure', len(mon.log) == nlog,
                 lambda: dict(info(), log=[str(x) for x in mon.log], at=nlog)),
            ])
            g.witness('property_failed_at_step_started' if nh == 1 else 'property_failed_mid_step')
            if evname == 'state entered' and nh < len(exp) and exp[nh][0] == 'state entered':
                g.witness('failed_between_two_entries')
            check_positions()
            return 'stop'
        g.prove(merr is None, 'no_error_when_property_never_final', lambda: dict(info(), error=repr(merr)))
        g.prove_all([
            ('stream_complete_and_ordered', same_values(got, exp), lambda: dict(info(), expected=str(exp))),
            ('recording_property_chart_got_every_meta_event', [r[0] for r in recd] == [x[0] for x in exp], info),
            ('property_clock_shows_step_time', same_values([r[1] for r in recd], [now] * len(recd)),
             lambda: dict(info(), clocks=str([r[1] for r in recd]), now=str(now))),
            ('monitored_run_equals_unmonitored_run', same_values(step_view(mon, ms, None), step_view(twin, ts, None)),
             lambda: dict(info(), mon=str(step_view(mon, ms, None)), twin=str(step_view(twin, ts, None)))),
            ('same_configuration', mon.it.configuration == twin.it.configuration, info),
            ('contracts_see_the_same_sent_events_with_and_without_monitors', recs['mon'] == recs['twin'],
             lambda: dict(info(), monitored=str(recs['mon'][-6:]), unmonitored=str(recs['twin'][-6:]))),
        ])
        check_positions()
        if any(x[0] == 'note' for x in exp):
            g.witness('notify_delivered')
        if any(x[0] == 'event sent' for x in exp):
            g.witness('event_sent_delivered')
        return 'go'

    def check_positions():
        """each meta-event is delivered right after the code it reports and before any later code"""
        for seen in started_with:
            g.prove(not seen, 'step_started_delivered_before_any_monitored_code',
                    lambda: dict(info(), ran_before=[str(x) for x in seen]))
        del started_with[:]
        for view, pos in heard:
            nm, d = view
            last = pos[-1] if pos else None
            if nm == 'state exited':
                g.prove(last == ('ex', d['state']), 'delivered_right_after_exit_code', info)
            elif nm == 'state entered':
                g.prove(last == ('en', d['state']), 'delivered_right_after_entry_code',
                        lambda: dict(info(), last=str(last), state=d['state']))
            elif nm == 'transition processed':
                g.prove(last is not None and last[0] == 'act', 'delivered_right_after_action', info)

    r = one(-1, None, g.real('adv_init', 0), first=True)
    for k in range(level['K']):
        if r != 'go':
            break
        adv = g.real('adv%d' % k, 0)
        g.witness('clock_advanced_between_steps', adv > 0)
        ev = [None, 'a'][g.choice('ev%d' % k, 2)]
        hist.append(ev)
        r = one(k, ev, adv)
    if r == 'go':
        g.witness('never_failed')
    g.sample({'chart': cm.describe(), 'events': hist, 'failed_at': failed_at[:1]})
