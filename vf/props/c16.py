"""C16 -- structural editing keeps a statechart sound; failed edits change nothing.

Unit: Statechart.add_state/remove_state/rename_state/move_state/add_transition/remove_transition/
rotate_transition/validate and every public query, driven directly.  Solver-enumerated (finite domains;
the solver is a generator here): start chart, a sequence of K editing operations and their arguments,
valid and invalid alike (existing names, a fresh name, None, registered and unregistered transitions, among them
transitions that differ from a registered one by their priority only).
Oracle: an independent reference model of the documented effects; after each successful operation every
public query agrees with the model, the soundness facts hold and validate() passes; after an operation
that raises StatechartError or ValueError a snapshot of every public query equals the snapshot before;
any other exception is a violation.
"""
from .. import chartgen as cg

ID = 'C16'
ALL = [cg.BASIC, cg.COMPOUND, cg.ORTH, cg.FINAL, cg.SH, cg.DH]
LEVELS = {
    'quick': [
        {'name': 'L1-N4-K1', 'N': 4, 'M': 2, 'K': 1, 'reps': 3, 'budget_s': 60},
        {'name': 'L2-N3-K2', 'N': 3, 'M': 2, 'K': 2, 'reps': 2, 'budget_s': 150},
    ],
    'thorough': [
        {'name': 'L1-N5-K1', 'N': 5, 'M': 2, 'K': 1, 'reps': 2, 'budget_s': 600},
        {'name': 'L2-N4-K2', 'N': 4, 'M': 2, 'K': 2, 'reps': 1, 'budget_s': 2400},
        {'name': 'L3-N3-K3', 'N': 3, 'M': 1, 'K': 3, 'reps': 1, 'budget_s': 2400},
    ],
}
OPS = ['add_state', 'remove_state', 'rename_state', 'move_state', 'add_transition', 'remove_transition',
       'rotate_transition']
WITNESSES = ['failed_edit', 'successful_' + 'remove_state', 'successful_rename_state', 'successful_move_state',
             'successful_rotate_transition', 'rename_with_self_loop', 'remove_with_descendants', 'rotate_half_valid',
             'transitions_differing_by_priority_only']
STUBS = []
ASSUMPTIONS = ['moving a state under a non-composite state is accepted by the API and not demanded to fail (not '
               'documented either way); the tree/consistency facts are still demanded afterwards',
               'order of children lists is not demanded', 'start charts: a few completions per skeleton']
OUTSIDE = ['longer edit sequences', 'copy_from_statechart (C17)', 'direct mutation of element attributes']
KCLS = ['BasicState', 'CompoundState', 'OrthogonalState', 'FinalState', 'ShallowHistoryState', 'DeepHistoryState']


def shards(level):
    out = []
    for sk in cg.skeletons(level['N'], ALL):
        out.append({'skel': sk})
    return out


def expand(job, level):
    if 'chart' in job:
        yield job['chart']
        return
    allc = list(cg.charts(job['skel'], level['M'], nevents=1, targets='free'))
    if not allc:
        allc = list(cg.charts(job['skel'], 0))
    reps = level.get('reps', 1)
    idx = sorted({0, len(allc) // 2, len(allc) - 1})[:reps]
    for i in idx:
        yield allc[i]


def canary_job():
    ch = {'N': 3, 'par': [-1, 0, 0], 'kind': [cg.COMPOUND, cg.BASIC, cg.BASIC], 'init': [1, -1, -1],
          'tr': [[1, 1, 1]]}
    return {'chart': ch}, {'name': 'canary', 'N': 3, 'M': 1, 'K': 1, 'reps': 1}


class Ref:
    """reference model of the documented effects (independent of sismic)"""

    def __init__(self, cm):
        self.st = {}      # name -> dict(kind, parent, ref)  (ref = initial / memory / None)
        for i in range(cm.n):
            self.st[cm.names[i]] = {'kind': cm.kind[i], 'parent': cm.name(cm.par[i]),
                                    'ref': cm.name(cm.init[i]) if cm.init[i] >= 0 else None}
        self.tr = [[cm.names[s], cm.name(t), cg.EVENTS[e], 0] for s, t, e in cm.tr]      # + priority

    def desc(self, nm):
        out = []
        todo = [nm]
        while todo:
            x = todo.pop()
            for k, v in self.st.items():
                if v['parent'] == x:
                    out.append(k)
                    todo.append(k)
        return out

    def root(self):
        r = [k for k, v in self.st.items() if v['parent'] is None]
        return r[0] if r else None


def snapshot(sc):
    """every public query, as plain data"""
    from sismic.model import CompoundState, HistoryStateMixin
    out = {'states': list(sc.states), 'root': sc.root}
    per = {}
    for n in sc.states:
        st = sc.state_for(n)
        per[n] = (type(st).__name__, st.name, sc.parent_for(n), sorted(sc.children_for(n)), sc.ancestors_for(n),
                  sorted(sc.descendants_for(n)), sc.depth_for(n),
                  getattr(st, 'initial', None) if isinstance(st, CompoundState) else None,
                  getattr(st, 'memory', None) if isinstance(st, HistoryStateMixin) else None,
                  sorted(((t.source, t.target, t.event) for t in sc.transitions_from(n)), key=str),
                  sorted(((t.source, t.target, t.event) for t in sc.transitions_to(n)), key=str),
                  sc.events_for(n))
    out['per'] = per
    out['tr'] = [(id(t), t.source, t.target, t.event, t.priority) for t in sc.transitions]
    out['events'] = sc.events_for()
    return out


def agrees(sc, ref):
    """reason string if a public query disagrees with the reference model"""
    if sorted(sc.states) != sorted(ref.st):
        return 'states %s vs %s' % (sc.states, sorted(ref.st))
    if sc.root != ref.root():
        return 'root %r vs %r' % (sc.root, ref.root())
    for n, v in ref.st.items():
        st = sc.state_for(n)
        if st.name != n or type(st).__name__ != KCLS[v['kind']]:
            return 'state %s is %r' % (n, st)
        if sc.parent_for(n) != v['parent']:
            return 'parent of %s: %r vs %r' % (n, sc.parent_for(n), v['parent'])
        kids = sorted(k for k, w in ref.st.items() if w['parent'] == n)
        if sorted(sc.children_for(n)) != kids:
            return 'children of %s: %r vs %r' % (n, sc.children_for(n), kids)
        if sorted(sc.descendants_for(n)) != sorted(ref.desc(n)):
            return 'descendants of %s' % n
        anc = []
        p = v['parent']
        while p is not None:
            anc.append(p)
            p = ref.st[p]['parent']
        if sc.ancestors_for(n) != anc or sc.depth_for(n) != len(anc) + 1:
            return 'ancestors/depth of %s: %r vs %r' % (n, sc.ancestors_for(n), anc)
        if v['kind'] == cg.COMPOUND and st.initial != v['ref']:
            return 'initial of %s: %r vs %r' % (n, st.initial, v['ref'])
        if v['kind'] >= cg.SH and st.memory != v['ref']:
            return 'memory of %s: %r vs %r' % (n, st.memory, v['ref'])
    got = sorted(((t.source, t.target, t.event, t.priority) for t in sc.transitions), key=str)
    want = sorted(((a, b, c, p) for a, b, c, p in ref.tr), key=str)
    if got != want:
        return 'transitions %r vs %r' % (got, want)
    for n in ref.st:
        if sorted(((t.source, t.target, t.event, t.priority) for t in sc.transitions_from(n)), key=str) != \
                sorted(((a, b, c, p) for a, b, c, p in ref.tr if a == n), key=str):
            return 'transitions_from(%s)' % n
        if sorted(((t.source, t.target, t.event, t.priority) for t in sc.transitions_to(n)), key=str) != \
                sorted(((a, b, c, p) for a, b, c, p in ref.tr if b == n or (b is None and a == n)), key=str):
            return 'transitions_to(%s)' % n
    return None


def sound(sc):
    from sismic.model import TransitionStateMixin
    names = sc.states
    roots = [n for n in names if sc.parent_for(n) is None]
    if names and len(roots) != 1:
        return 'not one tree: roots %r' % roots
    for n in names:
        p = sc.parent_for(n)
        if p is not None and (p not in names or n not in sc.children_for(p)):
            return 'parent/children inconsistent at %s' % n
        for c in sc.children_for(n):
            if c not in names or sc.parent_for(c) != n:
                return 'children/parent inconsistent at %s' % n
        st = sc.state_for(n)
        for attr in ('initial', 'memory'):
            r = getattr(st, attr, None)
            if r is not None and r not in names:
                return '%s of %s dangles: %r' % (attr, n, r)
    for t in sc.transitions:
        if t.source not in names or not isinstance(sc.state_for(t.source), TransitionStateMixin):
            return 'transition from %r' % t.source
        if t.target is not None and t.target not in names:
            return 'transition to missing %r' % t.target
    try:
        sc.validate()
    except Exception as e:
        return 'validate() fails: %r' % (e,)
    return None


def harness(g, chart, level, canary=False):
    from sismic import model as M
    from sismic.exceptions import StatechartError
    sc, trs, cm = cg.build(chart, 'id')
    ref = Ref(cm)
    extra_tr = M.Transition(cm.names[0], None, event='unregistered')
    unregistered = [extra_tr]
    if trs:
        # a registered transition that differs from transition 0 by its priority only, and an unregistered look-alike
        # of both (different priority again): operations must pick exactly the transition they are given
        t0 = trs[0]
        dup = M.Transition(t0.source, t0.target, event=t0.event, guard=t0.guard, action=t0.action, priority=1)
        sc.add_transition(dup)
        ref.tr.append([t0.source, t0.target, t0.event, 1])
        unregistered.append(M.Transition(t0.source, t0.target, event=t0.event, guard=t0.guard, action=t0.action,
                                         priority=2))
        g.witness('transitions_differing_by_priority_only')
    log = []
    info = lambda: {'chart': cm.describe(), 'ops': log}   # noqa: E731
    for k in range(level['K']):
        names = sorted(ref.st) + ['fresh', None]
        live = list(sc.transitions)
        op = OPS[g.choice('op%d' % k, len(OPS))]
        before = snapshot(sc)
        expect_ok = None
        if op == 'add_state':
            kind = g.choice('kind%d' % k, 6)
            nm = ['fresh', sorted(ref.st)[0] if ref.st else 'fresh', None][g.choice('nm%d' % k, 3)]
            parent = names[g.choice('par%d' % k, len(names))]
            args = (KCLS[kind], nm, parent)
            st = getattr(M, KCLS[kind])(nm)
            call = lambda: sc.add_state(st, parent)   # noqa: E731
            pk = ref.st.get(parent, {}).get('kind')
            expect_ok = (nm is not None and nm not in ref.st and (
                (not parent and ref.root() is None and kind < cg.SH) or
                (parent in ref.st and pk in (cg.COMPOUND, cg.ORTH) and (kind < cg.SH or pk == cg.COMPOUND))))

            def apply():
                ref.st[nm] = {'kind': kind, 'parent': parent or None, 'ref': None}
        elif op == 'remove_state':
            nm = names[g.choice('a%d' % k, len(names))]
            args = (nm,)
            call = lambda: sc.remove_state(nm)   # noqa: E731
            expect_ok = nm in ref.st

            def apply():
                gone = [nm] + ref.desc(nm)
                if len(gone) > 1:
                    g.witness('remove_with_descendants')
                for x in gone:
                    del ref.st[x]
                ref.tr[:] = [t for t in ref.tr if t[0] not in gone and t[1] not in gone]
                for v in ref.st.values():
                    if v['ref'] in gone:
                        v['ref'] = None
        elif op == 'rename_state':
            old = names[g.choice('a%d' % k, len(names))]
            new = (sorted(ref.st) + ['fresh', 'fresh2'])[g.choice('b%d' % k, len(ref.st) + 2)]
            args = (old, new)
            call = lambda: sc.rename_state(old, new)   # noqa: E731
            expect_ok = (old == new) or (old in ref.st and new not in ref.st)

            def apply():
                if old == new:
                    return
                if any(t[0] == old and t[1] == old for t in ref.tr):
                    g.witness('rename_with_self_loop')
                ref.st[new] = ref.st.pop(old)
                for v in ref.st.values():
                    if v['parent'] == old:
                        v['parent'] = new
                    if v['ref'] == old:
                        v['ref'] = new
                for t in ref.tr:
                    if t[0] == old:
                        t[0] = new
                    if t[1] == old:
                        t[1] = new
        elif op == 'move_state':
            nm = names[g.choice('a%d' % k, len(names))]
            dest = names[g.choice('b%d' % k, len(names))]
            args = (nm, dest)
            call = lambda: sc.move_state(nm, dest)   # noqa: E731
            expect_ok = nm in ref.st and dest in ref.st and dest != nm and dest not in ref.desc(nm)

            def apply():
                ref.st[nm]['parent'] = dest
                if ref.st[nm]['kind'] >= cg.SH:
                    ref.st[nm]['ref'] = None
                for v in ref.st.values():
                    if v['ref'] == nm:
                        v['ref'] = None
        elif op == 'add_transition':
            src = names[g.choice('a%d' % k, len(names))]
            tgt = names[g.choice('b%d' % k, len(names))]
            args = (src, tgt)
            t = M.Transition(src, tgt, event='n%d' % k)
            call = lambda: sc.add_transition(t)   # noqa: E731
            expect_ok = (src in ref.st and ref.st[src]['kind'] <= cg.ORTH and (tgt is None or tgt in ref.st))

            def apply():
                ref.tr.append([src, tgt, 'n%d' % k, 0])
        elif op == 'remove_transition':
            cands = live + unregistered
            t = cands[g.choice('a%d' % k, len(cands))]
            args = (t.source, t.target, t.event, t.priority)
            call = lambda: sc.remove_transition(t)   # noqa: E731
            expect_ok = not any(t is u for u in unregistered)

            def apply():
                ref.tr.remove([t.source, t.target, t.event, t.priority])
        else:
            cands = live + unregistered
            t = cands[g.choice('a%d' % k, len(cands))]
            opts = names + ['']
            ns = opts[g.choice('b%d' % k, len(opts))]
            nt = opts[g.choice('c%d' % k, len(opts))]
            args = ((t.source, t.target, t.event, t.priority), ns, nt)
            call = lambda: sc.rotate_transition(t, new_source=ns, new_target=nt)   # noqa: E731
            src_ok = ns == '' or (ns in ref.st and ref.st[ns]['kind'] <= cg.ORTH)
            tgt_ok = nt == '' or nt is None or nt in ref.st
            expect_ok = not (ns == '' and nt == '') and not any(t is u for u in unregistered) and src_ok and tgt_ok
            if not any(t is u for u in unregistered) and src_ok != tgt_ok and not (ns == '' and nt == ''):
                g.witness('rotate_half_valid')
            old3 = [t.source, t.target, t.event, t.priority]

            def apply():
                i = ref.tr.index(old3)
                if ns != '':
                    ref.tr[i][0] = ns
                if nt != '':
                    ref.tr[i][1] = nt
        log.append([op] + [str(a) for a in args])
        try:
            call()
            outcome = 'ok'
        except (StatechartError, ValueError) as e:
            outcome = 'rejected'
        except Exception as e:
            outcome = 'crash %r' % (e,)
        if canary and op == 'rename_state':
            expect_ok = not expect_ok
        g.prove(not outcome.startswith('crash'), 'only_statechart_or_value_error', lambda: dict(info(), outcome=outcome))
        if outcome == 'rejected':
            after = snapshot(sc)
            g.prove(after == before, 'failed_edit_changes_nothing',
                    lambda: dict(info(), diff=[k_ for k_ in before if before[k_] != after[k_]]))
            g.prove(not expect_ok, 'valid_edit_accepted', info)
            g.witness('failed_edit')
            continue
        g.prove(expect_ok, 'invalid_edit_rejected', info)
        apply()
        r = agrees(sc, ref)
        g.prove(r is None, 'documented_effect', lambda: dict(info(), reason=r))
        r2 = sound(sc)
        g.prove(r2 is None, 'statechart_still_sound', lambda: dict(info(), reason=r2))
        g.witness('successful_' + op)
    g.sample({'chart': cm.describe(), 'ops': log})
