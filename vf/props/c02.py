"""C02 -- the active configuration is always legal and stable.

Unit: Interpreter.execute_once through the public API on generated charts of all six state
kinds with free transition targets (W7, W9 assumed), driven by K events.  Symbolic scalars: one
guard bit per (transition, step).  Solver-enumerated: chart, initial/memory choices, transitions,
event sequence, and how the chart was put together (directly, or by editing: states attached
elsewhere, the half-built chart executed and queried, then moved into place).  Oracle: independent legality predicate over the generated arrays
(chartgen.CM.legal) after every normal return; stability probe (a further step with nothing
pending and every guard false returns None and changes nothing); finality is absorbing.
"""
from .. import chartgen as cg
from ..steplib import Inst, micro_summary

ID = 'C02'
ALL = [cg.BASIC, cg.COMPOUND, cg.ORTH, cg.FINAL, cg.SH, cg.DH]
B, C, O, D = cg.BASIC, cg.COMPOUND, cg.ORTH, cg.DH
TEMPLATES = {
    # root{Z, O||{P{a,b,H*}, R2{x,y}}}: deep history inside a region that is exited together with its sibling
    'TN3': {'N': 10, 'par': [-1, 0, 0, 2, 3, 3, 3, 2, 7, 7], 'kind': [C, B, O, C, B, B, D, C, B, B]},
    # root{idle, work||{wa||{a1,a2}, wb{b1{b11}}}}: nested orthogonal states, one region deeper than the other
    'TN1': {'N': 9, 'par': [-1, 0, 0, 2, 3, 3, 2, 6, 7], 'kind': [C, B, O, O, B, B, C, C, B]},
    # root||{p||{p1{x,y}, p2}, q{q1, q2}}: orthogonal root with a nested orthogonal region
    'TN2': {'N': 9, 'par': [-1, 0, 1, 2, 2, 1, 0, 6, 6], 'kind': [O, O, C, B, B, B, C, B, B]},
}
LEVELS = {
    'quick': [
        {'name': 'L1-N3-M2-K2', 'N': 3, 'M': 2, 'K': 2, 'namings': ['id'], 'budget_s': 60},
        {'name': 'L2-N4-M1-K2', 'N': 4, 'M': 1, 'K': 2, 'namings': ['id'], 'constr': 1, 'budget_s': 60},
        {'name': 'L3-N4-M2-K1', 'N': 4, 'M': 2, 'K': 1, 'namings': ['rev'], 'budget_s': 120},
        {'name': 'L4-TN-M1-K2', 'templates': ['TN1', 'TN2'], 'M': 1, 'K': 2, 'namings': ['id', 'rev'], 'constr': 1, 'budget_s': 40},
        {'name': 'L6-plant-K5', 'fixed': ['plant', 'plant_s'], 'K': 5, 'events': 'abcdefg', 'namings': ['id'], 'M': 9, 'budget_s': 60},
        {'name': 'L5-TN3-M2-K3', 'templates': ['TN3'], 'M': 2, 'K': 3, 'namings': ['id', 'rev'], 'nevents': 1, 'hist_target': 1,
         'guards': 0, 'budget_s': 100},
    ],
    'thorough': [
        {'name': 'L1-N3-M3-K3', 'N': 3, 'M': 3, 'K': 3, 'namings': ['id', 'rev'], 'budget_s': 300},
        {'name': 'L2-N4-M2-K2', 'N': 4, 'M': 2, 'K': 2, 'namings': ['id', 'rev'], 'budget_s': 900},
        {'name': 'L3-N5-M1-K2', 'N': 5, 'M': 1, 'K': 2, 'namings': ['mix'], 'budget_s': 900},
        {'name': 'L4-N5-M2-K1', 'N': 5, 'M': 2, 'K': 1, 'namings': ['id'], 'budget_s': 1500},
        {'name': 'L5-TN-M2-K2', 'templates': ['TN1', 'TN2'], 'M': 2, 'K': 2, 'namings': ['id', 'rev', 'mix'], 'budget_s': 900},
    ],
}
WITNESSES = ['final_reached', 'history_entered', 'into_orthogonal_region', 'orthogonal_active',
             'stability_probe', 'error_step']
STUBS = ['guards "G(t, event)" -> symbolic bit per (transition, step); entry/exit/action probes log only']
ASSUMPTIONS = ['well-formed charts (DESIGN §2), all six state kinds, free targets incl. targets nested in '
               'orthogonal regions', 'events drawn from {a, b}', 'PythonEvaluator']
OUTSIDE = ['charts above the N/M/K bound of the completed level', 'clock moves (time plays no role in '
           'legality; C13 covers time)', 'steps that raise NonDeterminism/Conflict errors end the path (C04)']


def shards(level):
    if 'fixed' in level:       # hand-written larger charts; the first event of the history is the shard
        return [{'chart': dict(cg.FIXED[n]), 'first': e} for n in level['fixed'] for e in range(len(level['events']))]
    if 'templates' in level:
        out = []
        for name in level['templates']:
            out.extend(dict(sh, template=name) for sh in cg.split_shards([dict(TEMPLATES[name])], level['M'],
                                                                          nevents=level.get('nevents', 2)))
        return out
    sk = cg.skeletons(level['N'], ALL)
    return cg.split_shards(sk, level['M'])


def expand(job, level):
    if 'chart' in job:
        yield dict(job['chart'], first=job['first']) if 'first' in job else job['chart']
        return
    yield from cg.charts(job['skel'], level['M'], nevents=level.get('nevents', 2), targets='free', fix=job.get('fix'),
                         hist_target=bool(level.get('hist_target')))


def canary_job():
    ch = {'N': 3, 'par': [-1, 0, 0], 'kind': [cg.COMPOUND, cg.BASIC, cg.BASIC], 'init': [1, -1, -1],
          'tr': [[1, 2, 1]]}
    return {'chart': ch}, {'name': 'canary', 'N': 3, 'M': 1, 'K': 1, 'namings': ['id']}


def classify(label, info, item):
    r = (info or {}).get('reason', '') or ''
    if r.startswith('orthogonal') and 'children active' in r:
        return 'orthogonal_region_not_entered'
    return label


def harness(g, chart, level, canary=False):
    from sismic.exceptions import NonDeterminismError, ConflictingTransitionsError
    namings = level.get('namings', ['id'])
    naming = namings[g.choice('naming', len(namings))]
    can_freeze = bool(level.get('guards', 0 if level.get('fixed') else 1))
    cons = cg.constructions(chart) if level.get('constr') else [None]
    moved = cons[g.choice('constr', len(cons))] if len(cons) > 1 else None
    inst = Inst(g, chart, naming, guards=can_freeze, moved=moved)
    cm, it = inst.cm, inst.it
    hist = []

    def check(where, mstep):
        conf = it.configuration
        reason = cm.legal(conf)
        if canary and conf and cm.names[2] in conf:
            reason = 'canary: s2 declared illegal'
        ok = reason is None and (bool(conf) or it.final) and (it.final == (not conf))
        g.prove(ok, 'legal_' + where, lambda: {'chart': cm.describe(), 'conf': conf, 'reason': reason,
                                               'final': it.final, 'history': hist,
                                               'last': micro_summary(inst, mstep)})
        if any(cm.kind[cm.idx[c]] == cg.ORTH for c in conf):
            g.witness('orthogonal_active')
        return conf
    st = inst.init()
    check('after_init', st)
    for k in range(level['K']):
        evs = level.get('events', 'ab')
        ev = evs[chart['first']] if (k == 0 and 'first' in chart) else evs[g.choice('ev%d' % k, len(evs))]
        was_final = it.final
        st, err, log = inst.step(k, ev)
        hist.append(ev)
        if err is not None:
            # the property speaks about normal returns only; which errors are right is C04's business
            g.witness('error_step')
            return
        conf = check('after_step', st)
        if was_final:
            g.prove(not conf and it.final, 'final_is_absorbing', lambda: {'chart': cm.describe()})
        if it.final:
            g.witness('final_reached')
        if st is not None:
            for ms in st.steps:
                if ms.transition is not None and ms.transition.target is not None:
                    tg = cm.idx[ms.transition.target]
                    if cm.kind[tg] >= cg.SH:
                        g.witness('history_entered')
                    if any(cm.kind[a] == cg.ORTH for a in cm.ancestors(tg)) and \
                            cm.idx[ms.transition.source] not in [tg] + cm.descendants(
                                [a for a in cm.ancestors(tg) if cm.kind[a] == cg.ORTH][0]):
                        g.witness('into_orthogonal_region')
    # stability: every guard false -> events still pending are consumed by transition-less steps,
    # nothing is entered or exited, and then nothing happens at all
    before = it.configuration
    for j in range(level['K'] + 2):
        st, err, log = inst.step(level['K'] + j, None, frozen=True)
        if not can_freeze and (err is not None or (st is not None and st.transitions)):
            st = None       # guards are not probes at this level: the chart legitimately goes on running
            break
        quiet = err is None and it.configuration == before and (
            st is None or (not st.transitions and not st.entered_states and not st.exited_states
                           and st.event is not None))
        g.prove(quiet, 'stable', lambda: {'chart': cm.describe(), 'history': hist, 'before': before,
                                          'after': it.configuration, 'step': micro_summary(inst, st),
                                          'err': repr(err)})
        if st is None:
            break
    g.prove(st is None, 'quiescent_after_draining', lambda: {'chart': cm.describe(), 'history': hist})
    g.witness('stability_probe')
    g.sample({'chart': cm.describe(), 'events': hist, 'final_conf': before})
