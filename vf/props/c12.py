"""C12 -- YAML import accepts only structurally sound statecharts.

Unit: sismic.io.import_from_yaml (ruamel load, schema validation, import_from_dict, Statechart.add_state/
add_transition/validate) on documents dumped from dictionaries.  Solver-enumerated (finite domains; the
solver is a generator here, said plainly): a valid document built from a generated chart, a fault kind
from the property's list, its position, 0..2 faults; guards, actions and events contain braces and % signs.  Oracle: a document with no fault must be accepted
and the returned chart must satisfy the structural facts (checked through public queries only); a
document with a fault must be rejected with StatechartError -- never accepted, never another exception.
"""
import copy
import io

from .. import chartgen as cg

ID = 'C12'
ALL = [cg.BASIC, cg.COMPOUND, cg.ORTH, cg.FINAL, cg.SH, cg.DH]
LEVELS = {
    'quick': [
        {'name': 'L1-N3-M2-1fault', 'N': 3, 'M': 2, 'faults': 1, 'budget_s': 130},
        {'name': 'L2-N4-M1-1structural', 'N': 4, 'M': 1, 'faults': 1, 'fault_set': 'structural', 'positions': 2, 'budget_s': 120},
        {'name': 'L3-N3-M1-2faults', 'N': 3, 'M': 1, 'faults': 2, 'positions': 1, 'budget_s': 90},
    ],
    'thorough': [
        {'name': 'L1-N4-M2-1fault', 'N': 4, 'M': 2, 'faults': 1, 'budget_s': 1800},
        {'name': 'L2-N5-M1-1fault', 'N': 5, 'M': 1, 'faults': 1, 'budget_s': 1800},
        {'name': 'L3-N3-M2-2faults', 'N': 3, 'M': 2, 'faults': 2, 'budget_s': 1800},
    ],
}
FAULTS = ['none', 'dup_name', 'tr_from_final', 'tr_from_history', 'unknown_target', 'empty_target', 'history_under_orthogonal',
          'history_root', 'initial_grandchild', 'initial_sibling_of_parent', 'initial_unknown', 'initial_self',
          'memory_self', 'memory_non_sibling', 'memory_unknown', 'memory_child_of_sibling', 'memory_unknown_beside_memoryless',
          'unknown_key_outer', 'unknown_key_statechart', 'unknown_key_state', 'unknown_key_transition',
          'unknown_key_contract', 'unknown_priority', 'unknown_type', 'both_states_and_parallel',
          'missing_state_name', 'missing_chart_name', 'missing_root']
WITNESSES = ['valid_accepted', 'rejected_' + 'dup_name', 'rejected_tr_from_history', 'rejected_initial_grandchild',
             'rejected_memory_non_sibling', 'rejected_unknown_key_transition', 'rejected_history_root',
             'rejected_both_states_and_parallel', 'two_faults']
STUBS = ['documents are dumped with ruamel.yaml (safe, block style) from dictionaries and fed to import_from_yaml as text']
ASSUMPTIONS = ['faults are those listed in the property; scalars the schema coerces by design (priority: 1.5, name: 7), '
               '`initial` on a non-compound state, children under a final state, an empty states list and wrong containers (a mapping where a scalar is expected: the schema coerces with str()) are not demanded; "unknown types" is read as unknown values of the state `type` key',
               'structure and fault placement are finite-domain: solver-enumerated bounded exhaustive']
OUTSIDE = ['YAML syntax errors', 'filepath= input', 'ignore_schema / ignore_validation', 'charts above the level bounds']


def shards(level):
    return cg.split_shards(cg.skeletons(level['N'], ALL), level['M'], nevents=1)


def expand(job, level):
    if 'chart' in job:
        yield job['chart']
        return
    yield from cg.charts(job['skel'], level['M'], nevents=1, targets='free', fix=job.get('fix'))


def canary_job():
    ch = {'N': 3, 'par': [-1, 0, 0], 'kind': [cg.COMPOUND, cg.BASIC, cg.BASIC], 'init': [1, -1, -1],
          'tr': [[1, 2, 1]]}
    return {'chart': ch}, {'name': 'canary', 'N': 3, 'M': 1, 'faults': 1}


def doc_from_chart(cm):
    """valid document (dict) written from the generated arrays, independently of sismic's exporter"""
    nodes = {}
    for i in range(cm.n):
        d = {'name': cm.names[i]}
        k = cm.kind[i]
        if k == cg.FINAL:
            d['type'] = 'final'
        elif k == cg.SH:
            d['type'] = 'shallow history'
            d['memory'] = cm.names[cm.init[i]]
        elif k == cg.DH:
            d['type'] = 'deep history'
            d['memory'] = cm.names[cm.init[i]]
        elif k == cg.COMPOUND:
            d['initial'] = cm.names[cm.init[i]]
        if i % 2 == 0 and k <= cg.ORTH:
            d['on entry'] = 'x = %d' % i
            d['contract'] = [{'always': 'True'}]
        nodes[i] = d
    for i in range(cm.n):
        ch = [nodes[c] for c in cm.children[i]]
        if cm.kind[i] == cg.COMPOUND:
            nodes[i]['states'] = ch
        elif cm.kind[i] == cg.ORTH:
            nodes[i]['parallel states'] = ch
    for t, (s, tg, e) in enumerate(cm.tr):
        td = {}
        if tg >= 0:
            td['target'] = cm.names[tg]
        if e:
            td['event'] = cg.EVENTS[e]
        td['guard'] = ['x in {0, 1}', 'True', 'len({}) == 0'][t % 3]        # braces and % signs are mere text to the importer
        td['action'] = ['d = {}', 'y = "%s %d {0}"', 'pass'][t % 3]
        td['priority'] = ['high', 5, 'low', -3][t % 4]
        if t % 3 == 0:
            td['contract'] = [{'before': 'True'}]
        nodes[s].setdefault('transitions', []).append(td)
    return {'statechart': {'name': 'doc', 'preamble': 'x = 0', 'root state': nodes[0]}}, nodes


def inject(fault, pos, doc, nodes, cm):
    """apply one fault at a position (index into the candidate list); returns False if not applicable"""
    n = cm.n
    trs = [(s, j) for s in range(n) for j in range(len(nodes[s].get('transitions', [])))]

    def pick(cands):
        return cands[pos % len(cands)] if cands else None
    if fault == 'dup_name':
        c = pick([(i, j) for i in range(n) for j in range(n) if i != j])
        if c is None:
            return False
        nodes[c[0]]['name'] = cm.names[c[1]]
    elif fault == 'tr_from_final':
        c = pick([i for i in range(n) if cm.kind[i] == cg.FINAL])
        if c is None:
            return False
        nodes[c]['transitions'] = [{'target': cm.names[0], 'guard': 'x in {0, 1}', 'event': 'e{0}'}]
    elif fault == 'tr_from_history':
        c = pick([i for i in range(n) if cm.kind[i] >= cg.SH])
        if c is None:
            return False
        nodes[c]['transitions'] = [{'target': cm.names[cm.init[c]], 'event': 'e', 'guard': '{x} == {1}'}]
    elif fault == 'unknown_target':
        c = pick(trs)
        if c is None:
            return False
        nodes[c[0]]['transitions'][c[1]]['target'] = 'nowhere'
    elif fault == 'empty_target':
        c = pick(trs)
        if c is None:
            return False
        nodes[c[0]]['transitions'][c[1]]['target'] = ''      # names no existing state
    elif fault == 'history_under_orthogonal':
        c = pick([i for i in range(n) if cm.kind[i] == cg.ORTH])
        if c is None:
            return False
        nodes[c]['parallel states'].append({'name': 'hx', 'type': ['shallow history', 'deep history'][pos % 2]})
    elif fault == 'history_root':
        doc['statechart']['root state'] = {'name': cm.names[0], 'type': ['shallow history', 'deep history'][pos % 2]}
    elif fault in ('initial_grandchild', 'initial_sibling_of_parent', 'initial_unknown', 'initial_self'):
        comp = [i for i in range(n) if cm.kind[i] == cg.COMPOUND]
        if fault == 'initial_grandchild':
            c = pick([(i, x) for i in comp for x in cm.descendants(i) if cm.par[x] != i])
        elif fault == 'initial_sibling_of_parent':
            c = pick([(i, x) for i in comp for x in range(n) if x != i and not cm.is_anc(i, x) and x != i])
        elif fault == 'initial_unknown':
            c = pick([(i, None) for i in comp])
        else:
            c = pick([(i, i) for i in comp])
        if c is None:
            return False
        nodes[c[0]]['initial'] = 'nowhere' if c[1] is None else cm.names[c[1]]
    elif fault == 'memory_unknown_beside_memoryless':
        hs = [i for i in range(n) if cm.kind[i] >= cg.SH]
        if len(hs) < 2:
            return False
        a, b = (hs[0], hs[-1]) if pos % 2 == 0 else (hs[-1], hs[0])
        del nodes[a]['memory']                 # a history state without memory is valid ...
        nodes[b]['memory'] = 'nowhere'         # ... and must not hide the faulty memory of another one
    elif fault.startswith('memory_'):
        hs = [i for i in range(n) if cm.kind[i] >= cg.SH]
        if fault == 'memory_self':
            c = pick([(h, h) for h in hs])
        elif fault == 'memory_non_sibling':
            c = pick([(h, x) for h in hs for x in range(n) if cm.par[x] != cm.par[h]])
        elif fault == 'memory_child_of_sibling':
            c = pick([(h, x) for h in hs for x in range(n) if cm.par[x] >= 0 and cm.par[cm.par[x]] == cm.par[h]])
        else:
            c = pick([(h, None) for h in hs])
        if c is None:
            return False
        nodes[c[0]]['memory'] = 'nowhere' if c[1] is None else cm.names[c[1]]
    elif fault == 'unknown_key_outer':
        doc['colour'] = 'red'
    elif fault == 'unknown_key_statechart':
        doc['statechart']['colour'] = 'red'
    elif fault == 'unknown_key_state':
        nodes[pos % n]['colour'] = 'red'
    elif fault == 'unknown_key_transition':
        c = pick(trs)
        if c is None:
            return False
        nodes[c[0]]['transitions'][c[1]]['colour'] = 'red'
    elif fault == 'unknown_key_contract':
        nodes[pos % n]['contract'] = [{'sometimes': 'True'}]
    elif fault == 'type_name_list':
        nodes[pos % n]['name'] = {'a': 1}
    elif fault == 'type_states_dict':
        c = pick([i for i in range(n) if cm.kind[i] == cg.COMPOUND])
        if c is None:
            return False
        nodes[c]['states'] = {'name': 'zz'}
    elif fault == 'type_transitions_dict':
        nodes[pick([i for i in range(n) if cm.kind[i] <= cg.ORTH])]['transitions'] = {'target': cm.names[0]}
    elif fault == 'type_contract_dict':
        nodes[pos % n]['contract'] = {'before': 'True'}
    elif fault == 'type_priority_list':
        c = pick(trs)
        if c is None:
            return False
        nodes[c[0]]['transitions'][c[1]]['priority'] = [1]
    elif fault == 'type_statechart_list':
        doc['statechart'] = [1, 2]
    elif fault == 'unknown_priority':
        c = pick(trs)
        if c is None:
            return False
        nodes[c[0]]['transitions'][c[1]]['priority'] = 'medium'
    elif fault == 'unknown_type':
        c = pick([i for i in range(1, n)])
        if c is None:
            return False
        nodes[c]['type'] = 'weird'
    elif fault == 'both_states_and_parallel':
        c = pick([i for i in range(n) if cm.kind[i] in (cg.COMPOUND, cg.ORTH)])
        if c is None:
            return False
        other = 'parallel states' if cm.kind[c] == cg.COMPOUND else 'states'
        nodes[c][other] = [{'name': 'extra'}]
    elif fault == 'missing_state_name':
        del nodes[pos % n]['name']
    elif fault == 'missing_chart_name':
        del doc['statechart']['name']
    elif fault == 'missing_root':
        del doc['statechart']['root state']
    elif fault == 'target_is_list':
        c = pick(trs)
        if c is None:
            return False
        nodes[c[0]]['transitions'][c[1]]['target'] = [cm.names[0]]
    return True


def dump(d):
    import ruamel.yaml as yaml
    o = io.StringIO()
    y = yaml.YAML(typ='safe', pure=True)
    y.default_flow_style = False
    y.dump(d, o)
    return o.getvalue()


def structural_facts(sc):
    """reason string if the returned chart breaks a stated structural fact (public queries only)"""
    from sismic.model import (CompoundState, HistoryStateMixin, TransitionStateMixin)
    names = sc.states
    if len(set(names)) != len(names) or sc.root is None:
        return 'names not unique / no root'
    roots = [n for n in names if sc.parent_for(n) is None]
    if len(roots) != 1:
        return 'not one tree'
    for n in names:
        p = sc.parent_for(n)
        if p is not None and n not in sc.children_for(p):
            return 'parent/children inconsistent'
        st = sc.state_for(n)
        if isinstance(st, HistoryStateMixin):
            if p is None or not isinstance(sc.state_for(p), CompoundState):
                return 'history state %s outside a compound state' % n
            if st.memory is not None and (st.memory == n or st.memory not in sc.children_for(p)):
                return 'memory of %s not a sibling' % n
        if isinstance(st, CompoundState) and st.initial is not None and st.initial not in sc.children_for(n):
            return 'initial of %s not a direct child' % n
    for t in sc.transitions:
        if t.source not in names or not isinstance(sc.state_for(t.source), TransitionStateMixin):
            return 'transition from %s' % t.source
        if t.target is not None and t.target not in names:
            return 'transition to unknown %s' % t.target
    return None


def harness(g, chart, level, canary=False):
    from sismic.io import import_from_yaml
    from sismic.exceptions import StatechartError
    from sismic.model import Statechart
    cm = cg.CM(chart)
    nf = level.get('faults', 1)
    applied = []
    doc, nodes = doc_from_chart(cm)
    nfaults = 17 if level.get('fault_set') == 'structural' else len(FAULTS)   # FAULTS[:17] depend on the hierarchy
    f1 = g.choice('fault1', nfaults)
    if f1:
        p1 = g.choice('pos1', level.get('positions', 2))
        if not inject(FAULTS[f1], p1, doc, nodes, cm):
            return
        applied.append((FAULTS[f1], p1))
        if nf >= 2:
            f2 = g.choice('fault2', len(FAULTS))
            if f2:
                if f2 < f1:
                    return           # unordered pairs once
                p2 = g.choice('pos2', 2)
                try:
                    ok = inject(FAULTS[f2], p2, doc, nodes, cm)
                except (KeyError, TypeError, AttributeError, IndexError):
                    ok = False       # the second fault does not apply to the already damaged document
                if not ok:
                    return
                applied.append((FAULTS[f2], p2))
                g.witness('two_faults')
    text = dump(doc)
    info = lambda: {'chart': cm.describe(), 'faults': applied, 'outcome': outcome, 'yaml': text[:900]}   # noqa: E731
    try:
        r = import_from_yaml(text)
        outcome = 'accepted'
    except StatechartError:
        r, outcome = None, 'StatechartError'
    except Exception as e:
        r, outcome = None, 'other: %r' % (e,)
    if canary and applied:
        applied.pop()
    if not applied:
        g.prove(outcome == 'accepted' and isinstance(r, Statechart), 'valid_document_accepted', info)
        reason = structural_facts(r)
        g.prove(reason is None and sorted(r.states) == sorted(cm.names) and len(r.transitions) == len(cm.tr),
                'returned_chart_structurally_sound', lambda: dict(info(), reason=reason))
        g.witness('valid_accepted')
    else:
        g.prove(outcome != 'accepted', 'faulty_document_never_accepted', info)
        g.prove(outcome == 'StatechartError', 'rejected_with_statechart_error_only', info)
        g.witness('rejected_' + applied[0][0])
    g.sample({'chart': cm.describe(), 'faults': applied, 'outcome': outcome})
