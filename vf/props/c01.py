"""C01 -- transition selection follows the documented step semantics.

Unit: Interpreter.execute_once (selection: _select_event, _select_transitions, _sort_transitions)
through the public API, PythonEvaluator evaluating real guard strings `G(t, event)`.
Symbolic scalars: one Boolean per guard, one unbounded integer priority per transition.
Solver-enumerated: the chart (basic/compound/orthogonal), its initial children (=> every legal
configuration is the configuration after initialisation), M transitions (source, event,
self-loop or internal) and the pending-event situation.
Oracle (z3 terms over the guard bits and priorities, written from docs/execution.rst):
fires(t) <=> competes(t) and no competing transition on a proper descendant of src(t) and no
competing transition of the same source with strictly higher priority.
"""
from ..symex import And, Or, Not, Iff, Implies
from .. import chartgen as cg

ID = 'C01'
LEVELS = {
    'quick': [
        {'name': 'L1-N3-M3', 'N': 3, 'M': 3, 'namings': ['id'], 'budget_s': 150},
        {'name': 'L2-N4-M2', 'N': 4, 'M': 2, 'namings': ['rev'], 'budget_s': 100},
    ],
    'thorough': [
        {'name': 'L1-N3-M3', 'N': 3, 'M': 3, 'namings': ['id', 'rev'], 'budget_s': 400},
        {'name': 'L2-N4-M3', 'N': 4, 'M': 3, 'namings': ['id', 'rev'], 'budget_s': 900},
        {'name': 'L3-N5-M2', 'N': 5, 'M': 2, 'namings': ['mix'], 'budget_s': 900},
    ],
}
WITNESSES = ['two_fire_in_distinct_regions', 'priority_suppresses', 'inner_first_suppresses',
             'eventless_preempts_evented', 'unmatched_event_consumed', 'internal_event_first',
             'nothing_happens', 'error_on_multiple']
STUBS = ['guards are the code strings "G(t, event)"; G is a probe in the initial context returning the '
         'symbolic guard bit and logging the event it was shown']
ASSUMPTIONS = ['well-formed charts (DESIGN §2) over basic/compound/orthogonal states',
               'targets restricted to self-loop/internal: selection does not depend on targets (C04 frees them)',
               'guards have no side effects', 'PythonEvaluator', 'priorities: unbounded integers (group-by forks on equality, sort forks on order)']
OUTSIDE = ['charts above the N/M bound of the completed level', 'eventless_first/inner_first switches of the '
           'private selector', 'configurations only reachable through illegal (C02) states']
NAMINGS = ['id', 'rev']
SITUATIONS = ['none', 'ext_a', 'int_a_ext_b', 'ext_unmatched']   # ext_b is ext_a up to renaming a<->b


def shards(level):
    sk = cg.skeletons(level['N'], [cg.BASIC, cg.COMPOUND, cg.ORTH])
    return cg.split_shards(sk, level['M'])


def expand(job, level):
    if 'chart' in job:
        yield job['chart']
        return
    for ch in cg.charts(job['skel'], level['M'], nevents=2, targets='self_none', fix=job.get('fix')):
        yield ch


def canary_job():
    ch = {'N': 2, 'par': [-1, 0], 'kind': [cg.COMPOUND, cg.BASIC], 'init': [1, -1],
          'tr': [[1, -1, 1], [1, 1, 1]]}
    return {'chart': ch}, {'name': 'canary', 'N': 2, 'M': 2, 'namings': ['id']}


def harness(g, chart, level, canary=False):
    from sismic.interpreter import Interpreter
    from sismic.model import Event
    from sismic.exceptions import NonDeterminismError, ConflictingTransitionsError
    if 'chart' in chart:
        chart = chart['chart']
    # construction history: built directly, or with one composite state first attached elsewhere and moved
    mv = cg.movable(chart)
    moved = mv if (mv is not None and g.choice('built_by_move', 2)) else None
    namings = level.get('namings', ['id'])
    if moved is not None and 'id' not in namings:
        namings = namings + ['id']       # stale derived data shows or hides behind the tie-breaking name order
    naming = namings[g.choice('naming', len(namings))]
    sit = SITUATIONS[g.choice('situation', len(SITUATIONS))]
    m = len(chart['tr'])
    g.const_hash = True      # all priorities are symbolic: group-by-priority forks on equality only
    prio = [g.int('p%d' % t) for t in range(m)]
    gb = [g.bool('g%d' % t) for t in range(m)]
    calls = []

    def G(t, event):
        calls.append((t, event))
        return gb[t]

    def code(kind, ident):
        if kind == 'guard':
            return 'G(%d, event)' % ident
        if kind == 'entry' and ident == 0 and sit == 'int_a_ext_b':
            return "send('a', x=7)"
        return None
    # declaration order: canonical (sorted by source) or rotated, so that same-source transitions are not adjacent
    decl = g.choice('decl', 2) if m >= 3 else 0
    tro = (list(range(1, m)) + [0]) if decl else None
    tro = ([0] + list(range(2, m)) + [1]) if decl and m >= 3 else tro
    sc, trs, cm = cg.build(chart, naming, code, priorities=prio, tr_order=tro, moved=moved)
    it = Interpreter(sc, initial_context={'G': G})
    it.execute_once()
    conf = it.configuration
    g.prove(sorted(cm.idx[c] for c in conf) == cm.initial_config(), 'initial_configuration',
            lambda: {'chart': cm.describe(), 'conf': conf})
    active = {cm.idx[c] for c in conf}
    if sit == 'ext_a':
        it.queue(Event('a', x=1))
    elif sit == 'int_a_ext_b':
        it.queue(Event('b', x=2))
    elif sit == 'ext_unmatched':
        it.queue('zz')
    pend = {'none': None, 'ext_a': ('a', {'x': 1}),
            'int_a_ext_b': ('a', {'x': 7}), 'ext_unmatched': ('zz', {})}[sit]
    # ---- reference semantics
    src = [t[0] for t in cm.tr]
    evn = [cg.EVENTS[t[2]] for t in cm.tr]
    enabled = [And(src[t] in active, evn[t] is None or (pend is not None and evn[t] == pend[0]), gb[t])
               for t in range(m)]
    any_eventless = Or([enabled[t] for t in range(m) if evn[t] is None] + [False])
    comp = [enabled[t] if evn[t] is None else And(enabled[t], Not(any_eventless)) for t in range(m)]
    fires = []
    for t in range(m):
        inner = [comp[u] for u in range(m) if cm.is_anc(src[t], src[u])]
        if canary:
            higher = [And(comp[u], prio[u] < prio[t]) for u in range(m) if u != t and src[u] == src[t]]
        else:
            higher = [And(comp[u], prio[u] > prio[t]) for u in range(m) if u != t and src[u] == src[t]]
        fires.append(And(comp[t], Not(Or(inner + [False])), Not(Or(higher + [False]))))
    info = lambda: {'chart': cm.describe(), 'situation': sit, 'conf': conf}   # noqa: E731
    # ---- the step under test
    calls.clear()
    try:
        step = it.execute_once()
        err = None
    except Exception as e:   # which error class is right is C04's business; here: only if >= 2 fire
        step, err = None, e
    if err is not None:
        pairs = [And(fires[a], fires[b]) for a in range(m) for b in range(a + 1, m)]
        g.prove(Or(pairs + [False]), 'error_only_if_two_fire', info)
        g.witness('error_on_multiple')
    else:
        obs = [] if step is None else [_index(trs, x) for x in step.transitions]
        g.prove(len(set(obs)) == len(obs), 'no_transition_twice', info)
        items = [('fires_iff_selected[t%d]' % t, Iff(t in obs, fires[t]), info) for t in range(m)]
        consumed = None if step is None else step.event
        if pend is None:
            items.append(('nothing_consumed_when_nothing_pending', consumed is None, info))
        else:
            items.append(('event_consumed_iff_no_eventless_fires',
                          Iff(consumed is not None, Not(any_eventless)), info))
            if consumed is not None:
                items.append(('consumed_is_next_pending',
                              (consumed.name, consumed.data) == pend, info))
        items.append(('none_iff_nothing_happened',
                      Iff(step is None, And(pend is None, Not(Or(fires + [False])))), info))
        g.prove_all(items)
        if len(obs) >= 2:
            g.witness('two_fire_in_distinct_regions')
        if step is None:
            g.witness('nothing_happens')
        if sit == 'ext_unmatched' and step is not None and not obs and consumed is not None:
            g.witness('unmatched_event_consumed')
        if sit == 'int_a_ext_b' and consumed is not None and consumed.name == 'a':
            g.witness('internal_event_first')
        if consumed is None and obs and pend is not None and any(
                evn[u] == pend[0] and src[u] in active for u in range(m)):
            g.witness('eventless_preempts_evented', Or([enabled[u] for u in range(m) if evn[u] is not None] + [False]))
        for t in obs:
            for u in range(m):
                if u != t and u not in obs and src[u] == src[t]:
                    g.witness('priority_suppresses', And(enabled[u], comp[u]))
                if u not in obs and cm.is_anc(src[u], src[t]):
                    g.witness('inner_first_suppresses', comp[u])
    # ---- what the guards were shown
    for t, ev in calls:
        if evn[t] is None:
            g.prove(ev is None, 'eventless_guard_never_sees_event', info)
        else:
            g.prove(ev is not None and pend is not None and (ev.name, ev.data) == pend,
                    'evented_guard_sees_consumed_event', info)
    g.sample({'chart': cm.describe(), 'situation': sit, 'naming': naming})


def _index(trs, x):
    for i, t in enumerate(trs):
        if t is x:
            return i
    return -1
