"""C15 -- bound statecharts: sent events reach every bound target once, in order.

Unit: Interpreter.bind/attach/detach/_raise_event/queue and InternalEventListener through the public API.
A sender interpreter S, two receiver interpreters T1 and T2 (T1 forwards what it receives, and may be
bound back to S: a cycle) and two callables.  Solver-enumerated: which targets are bound and in which
order, the cycle, the detach point (none / between steps / by a callable during delivery, detaching a
later target or itself), how many events the sender's action sends.  Symbolic scalars: the event
parameter (unbounded integer) and the delay (real >= 0) of the sent events, guard bits.
Oracle: deliveries are logged at the targets' queue() (subclass) and at the callables; per sender macro
step the delivery log must equal [sent internal events] x [targets bound at that moment, in binding order]
as plain external Events with equal name and data (delay included), nothing for notify or consumed
events (user meta-events named like the forwarded one included), nothing after a detach; the sender consumes its own copy as an InternalEvent.
"""
from ..symex import Eq, And, is_sym
from .c09 import same_values

ID = 'C15'
LEVELS = {
    'quick': [{'name': 'L1-K2', 'K': 2, 'budget_s': 60}, {'name': 'L2-K3', 'K': 3, 'budget_s': 120}],
    'thorough': [{'name': 'L3-K4', 'K': 4, 'budget_s': 2400}],
}
WITNESSES = ['two_targets_in_binding_order', 'cycle_delivery', 'detached_gets_nothing', 'delayed_event_delivered_once',
             'notify_not_forwarded', 'sender_consumes_internal_copy', 'detach_during_delivery']
STUBS = ['receivers are Interpreter subclasses whose queue() logs and defers to the real queue()']
ASSUMPTIONS = ['one fixed family of small sender/receiver charts', 'delays >= 0, exact reals; parameters unbounded integers']
OUTSIDE = ['more than three interpreters / two callables', 'binding during a macro step other than by detach from a callable',
           'threads (C20)']
DETACH = ['none', 'between_T2', 'between_first', 'during_later', 'during_self', 'during_later_rebind', 'double_bind']


def shards(level):
    return [{'mask': m, 'rev': r} for m in range(1, 16) for r in (0, 1)]


def canary_job():
    return {'mask': 5, 'rev': 0}, {'name': 'canary', 'K': 1}


def charts(g):
    if 'c15' in g.cache:
        return g.cache['c15']
    from sismic.model import Statechart, CompoundState, BasicState, FinalState, Transition
    snd = Statechart('sender')
    snd.add_state(CompoundState('r', initial='A'), None)
    snd.add_state(BasicState('A', on_entry="send('hello', n=1)"), 'r')
    snd.add_state(FinalState('F'), 'r')
    snd.state_for('r').on_exit = "send('bye', n=2)"
    snd.add_transition(Transition('A', 'F', event='end'))
    snd.add_transition(Transition('A', 'A', event='go', guard='G()', action='ACT(send, notify, event)'))
    snd.add_transition(Transition('A', None, event='hello', action="REC('S', event)"))
    snd.add_transition(Transition('A', None, event='msg', action="REC('S', event)"))
    snd.add_transition(Transition('A', None, event='msg2', action="REC('S', event)"))
    snd.add_transition(Transition('A', None, event='fwd', action="REC('S', event)"))
    rcv = Statechart('receiver')
    rcv.add_state(CompoundState('r', initial='A'), None)
    rcv.add_state(BasicState('A'), 'r')
    rcv.add_transition(Transition('A', None, event='msg', action="REC(ME, event)\nif FORWARD: send('fwd', w=event.v)"))
    rcv.add_transition(Transition('A', None, event='msg2', action='REC(ME, event)'))
    g.cache['c15'] = (snd, rcv)
    return snd, rcv


def harness(g, job, level, canary=False):
    from sismic.interpreter import Interpreter
    from sismic.model import Event, InternalEvent, MetaEvent
    snd_sc, rcv_sc = charts(g)
    deliveries = []      # (target name, event) in delivery order
    consumed = []        # (who, event) via REC

    class Rec(Interpreter):
        def queue(self, *a, **k):
            for e in a:
                deliveries.append((self._nm, e))
            return super().queue(*a, **k)
    nsend = g.choice('nsend', 3)
    cycle = g.choice('cycle', 2)
    detach_mode = DETACH[g.choice('detach', len(DETACH))]
    cnt = [0]
    sent_spec = []

    def ACT(send, notify, event=None):
        cnt[0] += 1
        v = g.int('v%d' % cnt[0])
        d = g.real('d%d' % cnt[0], 0)
        if nsend >= 1:
            send('msg', v=v, delay=d)
            sent_spec.append(('msg', {'v': v, 'delay': d}))
        notify('meta', z=1)
        # user meta-events whose names resemble the one the forwarding listener reacts to ('event sent'), one of them
        # carrying the consumed external event: none of this is forwarded
        notify('sent', event=event)
        notify('event', z=3)
        notify('event sent ', z=4)
        if nsend >= 2:
            send('msg2', v=v + 1)
            sent_spec.append(('msg2', {'v': v + 1}))
    gb = []

    def G():
        b = g.bool('g%d' % len(gb))
        gb.append(b)
        return b

    def REC(who, event):
        consumed.append((who, event))
    S = Interpreter(snd_sc, initial_context={'ACT': ACT, 'G': G, 'REC': REC})
    T = {}
    for nm in ('T1', 'T2'):
        t = Rec(rcv_sc, initial_context={'REC': REC, 'ME': nm, 'FORWARD': nm == 'T1'})
        t._nm = nm
        T[nm] = t
    listeners = {}

    def mk_callable(nm):
        def fn(e):
            deliveries.append((nm, e))
            if nm == 'c1' and detach_mode in ('during_later', 'during_later_rebind') and not state['detached'] \
                    and e.name not in ('hello', 'bye'):
                later = [x for x in order if order.index(x) > order.index('c1')]
                if later:
                    S.detach(listeners[later[0]])
                    state['detached'] = later[0]
                    g.witness('detach_during_delivery')
                    if detach_mode == 'during_later_rebind':
                        # a new target is bound in the same callback: the number of listeners is unchanged
                        listeners['c3'] = S.bind(mk_callable('c3'))
                        state['rebound'] = True
            if nm == 'c1' and detach_mode == 'during_self' and not state['detached'] and e.name not in ('hello', 'bye'):
                S.detach(listeners['c1'])
                state['detached'] = 'c1'
                g.witness('detach_during_delivery')
        return fn
    items = ['T1', 'c1', 'T2', 'c2']
    order = [x for i, x in enumerate(items) if job['mask'] >> i & 1]
    if job['rev']:
        order = order[::-1]
    if detach_mode.startswith('during') and 'c1' not in order:
        return
    state = {'detached': None, 'rebound': False}
    callables = {}
    for x in order:
        if x not in T:
            callables[x] = mk_callable(x)
        listeners[x] = S.bind(T[x] if x in T else callables[x])
    if detach_mode == 'double_bind' and len(order) >= 2:
        first = order[0]
        extra = S.bind(T[first] if first in T else callables[first])   # the same target bound again, last
        S.detach(extra)            # only this second binding goes away: [first, ...] keeps its order
        g.witness('detached_gets_nothing')
    if cycle and 'T1' in order:
        T['T1'].bind(S.queue)
    for it in list(T.values()):
        it.execute_once()
    first = S.execute_once()          # A is entered by stabilisation: its entry code sends `hello`
    hello = [e for e in first.sent_events if isinstance(e, InternalEvent)]
    got0 = [(w, e) for w, e in deliveries]
    exp0 = [(x, e) for e in hello for x in order]
    g.prove(len(hello) == 1 and [w for w, _ in got0] == [w for w, _ in exp0]
            and all(type(e) is Event and e.name == 'hello' and dict(e.data) == {'n': 1} for _, e in got0),
            'events_sent_during_default_entry_are_listed_and_delivered',
            lambda: {'order': order, 'listed': [e.name for e in first.sent_events],
                     'delivered': [(w, e.name) for w, e in got0]})
    for rnd in range(3):
        for it in [S] + list(T.values()):
            for _ in range(4):
                if it.execute_once() is None:
                    break
    info = lambda: {'order': order, 'cycle': cycle, 'detach': detach_mode, 'nsend': nsend,   # noqa: E731
                    'deliveries': [(w, e.name, type(e).__name__) for w, e in deliveries][-12:]}
    active = list(order)
    for k in range(level['K']):
        if k == 1 and detach_mode in ('between_T2', 'between_first'):
            victim = 'T2' if detach_mode == 'between_T2' else order[0]
            if victim in active:
                S.detach(listeners[victim])
                active.remove(victim)
                state['detached'] = victim
        del deliveries[:]
        del sent_spec[:]
        before_detached = state['detached']
        S.queue('go')
        st = S.execute_once()
        fired = st is not None and len(st.transitions) > 0
        # expected deliveries of this macro step
        internal = [] if st is None else [e for e in st.sent_events if isinstance(e, InternalEvent)]
        # (the external self-loop re-enters A, whose entry code sends `hello` once more)
        g.prove(len(internal) == len(sent_spec) + (1 if fired else 0) and (not fired or len([e for e in st.sent_events
                if isinstance(e, MetaEvent)]) == 4), 'macro_step_lists_what_was_sent', info)
        exp = []
        cur = list(active)
        for ei, e in enumerate(internal):
            for x in list(cur):
                if detach_mode in ('during_later', 'during_later_rebind') and before_detached is None and state['detached'] == x:
                    # detached by c1 while this very event was being propagated: nothing after the detach
                    if ei > 0 or cur.index(x) > cur.index('c1'):
                        continue
                if detach_mode == 'during_self' and before_detached is None and x == 'c1' and ei > 0:
                    continue
                exp.append((x, e))
        if state['detached'] in active:
            active.remove(state['detached'])
        if state['rebound'] and 'c3' not in active:
            # bound while the first event of this step was being propagated: it is not served for that one
            # (it was not bound when the event was sent); from the next event on it is served last
            for ei, e in enumerate(internal):
                if ei > 0:
                    exp.append(('c3', e))
            active.append('c3')
            exp.sort(key=lambda we: [id(x) for x in internal].index(id(we[1])))
        got = [(w, e) for w, e in deliveries if w in ('T1', 'T2', 'c1', 'c2', 'c3')]
        if canary:
            exp = exp[::-1]
        conds = [('delivered_once_in_order_to_bound_targets', [w for w, _ in got] == [w for w, _ in exp],
                  lambda: dict(info(), expected=[(w, e.name) for w, e in exp]))]
        if [w for w, _ in got] == [w for w, _ in exp]:
            for (w, e), (_, s_) in zip(got, exp):
                conds.append(('delivered_as_plain_external_event', type(e) is Event, info))
                conds.append(('same_name_and_data', And(e.name == s_.name, same_values(dict(e.data), dict(s_.data))), info))
        g.prove_all(conds)
        if len([x for x in active if x in T]) == 2 and internal:
            g.witness('two_targets_in_binding_order')
        if fired:
            g.witness('notify_not_forwarded')
        if state['detached'] and internal:
            g.witness('detached_gets_nothing')
        if internal and 'delay' in internal[0].data and active:
            g.witness('delayed_event_delivered_once')
        # let everybody run to quiescence: the sender consumes its own copies as internal events
        del consumed[:]
        n_own = len([e for e in internal if e.name in ('msg', 'msg2')])
        for it in [S] + list(T.values()):
            far = it.clock.time
            for x in sent_spec:
                if 'delay' in x[1]:
                    far = far + x[1]['delay']
            it.clock.time = far
        for rnd in range(4):
            for it in [S] + list(T.values()):
                for _ in range(6):
                    if it.execute_once() is None:
                        break
        own = [e for w, e in consumed if w == 'S' and e.name in ('msg', 'msg2')]
        g.prove(len(own) == n_own and all(isinstance(e, InternalEvent) for e in own),
                'sender_consumes_its_own_copy_as_internal_event', lambda: dict(info(), own=[type(e).__name__ for e in own]))
        if own:
            g.witness('sender_consumes_internal_copy')
        for nm in ('T1', 'T2'):
            rec = [e for w, e in consumed if w == nm]
            want = [e for w, e in exp if w == nm and e.name in ('msg', 'msg2')]
            g.prove(len(rec) == len(want) and all(type(e) is Event for e in rec), 'target_consumes_each_delivery_once', info)
        if cycle and 'T1' in active and any(e.name == 'msg' for e in internal):
            fw = [e for w, e in consumed if w == 'S' and e.name == 'fwd']
            g.prove(len(fw) == len([e for e in internal if e.name == 'msg']) and all(type(e) is Event for e in fw),
                    'cycle_delivers_forwarded_event_once', info)
            g.witness('cycle_delivery')
    # the sender becomes final; its root exit code sends `bye` while the configuration is already empty
    del deliveries[:]
    S.queue('end')
    st = S.execute_once()
    bye = [e for e in st.sent_events if isinstance(e, InternalEvent) and e.name == 'bye']
    gotb = [(w, e) for w, e in deliveries if e.name == 'bye']
    g.prove(S.final and len(bye) == 1 and [w for w, _ in gotb] == list(active)
            and all(type(e) is Event and dict(e.data) == {'n': 2} for _, e in gotb),
            'event_sent_while_becoming_final_is_listed_and_delivered',
            lambda: dict(info(), listed=[e.name for e in st.sent_events], delivered=[(w, e.name) for w, e in gotb]))
    nxt = S.execute_once()
    g.prove(nxt is not None and nxt.event is not None and nxt.event.name == 'bye' and isinstance(nxt.event, InternalEvent),
            'sender_still_queues_its_own_copy_when_final',
            lambda: dict(info(), next=None if nxt is None else repr(nxt.event)))
    g.sample({'order': order, 'cycle': cycle, 'detach': detach_mode, 'nsend': nsend})
