"""C05 -- event queues: one event per step, internal first, FIFO, delays respected.

Unit: Interpreter.queue / execute_once (with _queue_event, _select_event, _raise_event) and
PythonEvaluator's send(), through the public API.  Symbolic scalars (exact reals, decided for all
values including ties and the boundary due == now): every delay d >= 0 and every clock advance
a >= 0.  Solver-enumerated: the kind of each operation of a history of length K (queue a reacting
event with a delay, queue an unmatched event, advance the clock, execute_once -- the very first
execute_once, which only initialises, may come before or after other operations) and one of six small
charts (ignore, react-and-send-delayed, eventless chain, two sends, eventless internal transitions, an action
that may raise: the event of a failed step is consumed once all the same).  Reference: a multiset of pending (due, class, seq, tag) records; obligations per step are
z3 formulas over the dues.  Every event carries a unique tag.
"""
import itertools

from ..symex import And, Or, Not, Implies, Ite, Iff

ID = 'C05'
OPS = ('qa', 'qu', 'adv', 'exec')
CHARTS = ('ignore', 'react_send', 'chain', 'two_sends', 'eventless_internal', 'raising')
LEVELS = {
    'quick': [{'name': 'L1-K4', 'K': 4, 'budget_s': 220},
              {'name': 'L2-inductive-q3', 'harness': 'ind', 'Q': 3, 'budget_s': 60}],
    'thorough': [{'name': 'L1-K4', 'K': 4, 'budget_s': 300},
                 {'name': 'L2-K5', 'K': 5, 'budget_s': 1200},
                 {'name': 'L3-K6', 'K': 6, 'budget_s': 2400},
                 {'name': 'L4-inductive-q4', 'harness': 'ind', 'Q': 4, 'budget_s': 300}],
}
WITNESSES = ['internal_before_external', 'delayed_not_yet_due', 'due_exactly_now', 'fifo_tie',
             'unmatched_consumed_alone', 'eventless_step_consumes_nothing', 'all_drained',
             'delayed_internal_pending', 'inductive_step', 'queued_before_first_execution', 'step_failed_in_action']
STUBS = ['interpreter clock: SimulatedClock advanced only by assignment (never started)',
         'action code: send(name, tag=T(), delay=D()) with D() a fresh symbolic real >= 0']
ASSUMPTIONS = ['delays >= 0, advances >= 0, exact reals', 'events queued from one thread (C20 covers threads)',
               'six fixed small charts: ignore-all, react-and-send-delayed, eventless chain, two sends per action, eventless internal transitions, an action that may raise']
OUTSIDE = ['histories longer than K operations (plus the draining phase) -- except through the inductive level, which starts from an arbitrary sorted queue state (private fields _internal_queue/_external_queue; skipped and reported if renamed)', 'DelayedEvent (deprecated)',
           'other charts than the six of the family']


def shards(level):
    if level.get('harness') == 'ind':
        q = level['Q']
        return [{'ni': a, 'ne': b, 'op': o} for a in range(q + 1) for b in range(q + 1) for o in ('queue_ext', 'send_int', 'exec')]
    k = min(3, level['K'])
    return [{'chart': c, 'prefix': list(p)} for c in range(len(CHARTS))
            for p in itertools.product(range(len(OPS)), repeat=k)]


def canary_job():
    return {'chart': 0, 'prefix': [0, 0, 3, 3]}, {'name': 'canary', 'K': 4}


def make_chart(kind):
    from sismic.model import Statechart, CompoundState, BasicState, Transition
    sc = Statechart('q', preamble='n = 0')
    sc.add_state(CompoundState('r', initial='A'), None)
    sc.add_state(BasicState('A'), 'r')
    if kind == 'react_send':
        sc.add_transition(Transition('A', 'A', event='a', action="send('i', tag=T('i'), delay=D())"))
        sc.add_transition(Transition('A', None, event='i', action='pass'))
    elif kind == 'two_sends':
        sc.add_transition(Transition('A', None, event='a',
                                     action="send('i', tag=T('i'), delay=D())\nsend('j', tag=T('j'))"))
    elif kind == 'eventless_internal':
        # an eventless *internal* transition (guarded by a counter) competes with pending events: it pre-empts them
        # and consumes none; afterwards `a` is reacted to by an internal transition that sends
        sc.add_transition(Transition('A', None, guard='n < 2', action='n = n + 1'))
        sc.add_transition(Transition('A', None, event='a', action="send('j', tag=T('j'))"))
    elif kind == 'raising':
        # the action that reacts to `a` may raise: the step fails, but the event it was processing is consumed --
        # announced once ('event consumed'), never processed again
        sc.add_transition(Transition('A', None, event='a', action='BOOM()'))
    elif kind == 'chain':
        sc.add_state(BasicState('B'), 'r')
        sc.add_state(BasicState('C'), 'r')
        sc.add_transition(Transition('A', 'B'))
        sc.add_transition(Transition('B', 'C'))
        sc.add_transition(Transition('C', 'A', event='a'))
    return sc


def inductive(g, job, level):
    """one operation from an arbitrary *sorted* queue state with symbolic due times (private fields; skipped and
    reported if they are renamed): the sortedness/FIFO invariant is preserved and selection respects it, which
    covers histories of any length up to the queue-length bound"""
    from sismic.interpreter import Interpreter
    from sismic.model import Event, InternalEvent
    sc = make_chart('react_send' if job['op'] == 'send_int' else 'ignore')
    cnt = [0]

    def D():
        cnt[0] += 1
        return g.real('sd%d' % cnt[0], 0)
    it = Interpreter(sc, initial_context={'T': lambda name: 'new', 'D': D})
    it.execute_once()
    if not (hasattr(it, '_external_queue') and hasattr(it, '_internal_queue')):
        g.witness('inductive_step')
        g.sample({'skipped': 'private queue fields absent'})
        return
    now = g.real('now', 0)
    it.clock.time = now
    it.execute_once()                       # freezes the interpreter time at `now`
    ti = [g.real('ti%d' % i) for i in range(job['ni'])]
    te = [g.real('te%d' % i) for i in range(job['ne'])]
    for xs in (ti, te):
        for a, b in zip(xs, xs[1:]):
            g.assume(a <= b)                # representation invariant: queues sorted by due time
    it._internal_queue[:] = [(t, InternalEvent('i', tag='i%d' % k)) for k, t in enumerate(ti)]
    it._external_queue[:] = [(t, Event('u', tag='e%d' % k)) for k, t in enumerate(te)]
    info = {'op': job['op'], 'internal': job['ni'], 'external': job['ne']}
    if job['op'] in ('queue_ext', 'send_int'):
        if job['op'] == 'queue_ext':
            d = g.real('d', 0)
            it.queue(Event('u', tag='new', delay=d))
            q, old = it._external_queue, te
            due = now + d
        else:
            # the chart reacts to `a` by sending an internal event with a symbolic delay: run that step
            it._external_queue[:] = [(now, Event('a', tag='trigger'))] + it._external_queue[:]
            # (only valid if nothing internal is due, otherwise the internal event is consumed instead)
            for t in ti:
                g.assume(t > now)
            for t in te:
                g.assume(t >= now)
            st = it.execute_once()
            g.prove(st is not None and st.event is not None and st.event.tag == 'trigger', 'trigger_consumed', info)
            q, old = it._internal_queue, ti
            due = now + g.real('sd1', 0)
        tags = [getattr(e, 'tag', None) for _, e in q]
        g.prove(tags.count('new') == 1 and len(q) == len(old) + 1, 'inserted_once', info)
        pos = tags.index('new')
        conds = [('queue_stays_sorted', And([q[i][0] <= q[i + 1][0] for i in range(len(q) - 1)] + [True]), info),
                 ('new_event_due_time', q[pos][0] == due, info),
                 ('after_everything_not_later', And([q[i][0] <= due for i in range(pos)] + [True]), info),
                 ('before_everything_strictly_later_fifo', And([q[i][0] > due for i in range(pos + 1, len(q))] + [True]), info),
                 ('others_keep_their_order', [t for t in tags if t != 'new'] == [('i%d' if job['op'] == 'send_int' else 'e%d') % k
                                                                                  for k in range(len(old))], info)]
        g.prove_all(conds)
    else:
        a = g.real('a', 0)
        it.clock.time = it.clock.time + a
        t2 = now + a
        st = it.execute_once()
        got = None if st is None or st.event is None else st.event.tag
        int_due = ti[0] <= t2 if ti else False
        ext_due = te[0] <= t2 if te else False
        conds = [('internal_head_taken_iff_due', Iff(got == 'i0', int_due), info),
                 ('external_head_taken_iff_due_and_no_internal_due', Iff(got == 'e0', And(Not(int_due), ext_due)), info),
                 ('nothing_taken_iff_nothing_due', Iff(got is None, And(Not(int_due), Not(ext_due))), info),
                 ('only_heads_are_taken', got in (None, 'i0', 'e0'), info)]
        g.prove_all(conds)
        rest_i = [e.tag for _, e in it._internal_queue]
        rest_e = [e.tag for _, e in it._external_queue]
        g.prove(rest_i == ['i%d' % k for k in range(job['ni']) if 'i%d' % k != got]
                and rest_e == ['e%d' % k for k in range(job['ne']) if 'e%d' % k != got], 'others_stay_queued_in_order', info)
    g.witness('inductive_step')
    g.sample(info)


def harness(g, job, level, canary=False):
    if level.get('harness') == 'ind':
        return inductive(g, job, level)
    from sismic.interpreter import Interpreter
    from sismic.model import Event
    kind = CHARTS[job['chart']]
    pending = []          # reference: dicts tag, cls, due, seq, name
    seq = [0]
    consumed_tags = []
    ctr = {'d': 0}

    def T(name):
        seq[0] += 1
        tag = 'i%d' % seq[0]
        cur['sent'].append({'tag': tag, 'name': name, 'seq': seq[0]})
        return tag

    def D():
        ctr['d'] += 1
        d = g.real('sd%d' % ctr['d'], 0)
        cur['delays'].append(d)
        return d
    cur = {'sent': [], 'delays': []}
    nboom = [0]

    def BOOM():
        nboom[0] += 1
        if g.bool('boom%d' % nboom[0]):
            raise RuntimeError('action fails')
    it = Interpreter(make_chart(kind), initial_context={'T': T, 'D': D, 'BOOM': BOOM})
    announced = []
    it.attach(lambda m: announced.append(m.event) if m.name == 'event consumed' else None)
    # the client may queue events and move the clock before the very first execution (which initialises the
    # chart and consumes nothing); the interpreter's time is then still its initial value
    state = {'inited': not g.choice('late_init', 2)}
    if state['inited']:
        it.execute_once()
    else:
        g.witness('queued_before_first_execution')
    ops = []

    def info():
        return {'chart': kind, 'ops': ops, 'consumed': consumed_tags,
                'pending': [p['tag'] for p in pending]}

    def exec_step(label_prefix=''):
        cur['sent'], cur['delays'] = [], []
        now = it.clock.time
        del announced[:]
        failed_ev = None
        try:
            st = it.execute_once()
        except Exception as ex:
            from sismic.exceptions import CodeEvaluationError
            g.prove(kind == 'raising' and isinstance(ex, CodeEvaluationError) and len(announced) == 1,
                    'only_the_raising_action_fails', lambda: dict(info(), error=type(ex).__name__))
            g.witness('step_failed_in_action')
            st, failed_ev = None, announced[0]
        if not state['inited']:
            state['inited'] = True
            g.prove(st is not None and st.event is None and not st.transitions and not st.sent_events,
                    'first_execution_only_initialises', info)
            return st
        ev = failed_ev if failed_ev is not None else (None if st is None else st.event)
        fired = [] if st is None else st.transitions
        eventless_fired = any(t.event is None for t in fired)
        if ev is None:
            if not eventless_fired:
                g.prove(And([Not(p['due'] <= now) for p in pending] + [True]),
                        'nothing_consumed_only_if_nothing_due', info)
                for p in pending:
                    g.witness('delayed_not_yet_due')
                    if p['cls'] == 'int':
                        g.witness('delayed_internal_pending')
            else:
                g.witness('eventless_step_consumes_nothing')
        else:
            tag = getattr(ev, 'tag', None)
            mine = [p for p in pending if p['tag'] == tag]
            g.prove(len(mine) == 1 and tag not in consumed_tags, 'consumed_event_was_pending_once', info)
            e = mine[0]
            g.prove(not eventless_fired, 'eventless_step_must_not_consume', info)
            conds = [('not_consumed_before_due', e['due'] <= now, info)]
            for p in pending:
                if p is e:
                    continue
                if e['cls'] == 'ext' and p['cls'] == 'int':
                    conds.append(('due_internal_event_first', Not(p['due'] <= now), info))
                    g.witness('internal_before_external')
                elif p['cls'] == e['cls']:
                    if canary:
                        later = Or(p['due'] > e['due'], And(p['due'] == e['due'], p['seq'] < e['seq']))
                    else:
                        later = Or(p['due'] > e['due'], And(p['due'] == e['due'], p['seq'] > e['seq']))
                    conds.append(('taken_in_due_order_fifo', later, info))
                    g.witness('fifo_tie', And(p['due'] == e['due'], p['seq'] > e['seq']))
            g.prove_all(conds)
            g.witness('due_exactly_now', e['due'] == now)
            pending.remove(e)
            consumed_tags.append(tag)
            if e['name'] == 'u':
                g.prove(not fired, 'unmatched_event_in_transitionless_step', info)
                g.witness('unmatched_consumed_alone')
        # events sent during this step become pending internal events, due = step time + delay
        sent = [] if st is None else [x for x in st.sent_events]
        g.prove([getattr(x, 'tag', None) for x in sent] == [s['tag'] for s in cur['sent']],
                'sent_events_listed', info)
        di = 0
        for s in cur['sent']:
            if s['name'] == 'i':
                d = cur['delays'][di]
                di += 1
            else:
                d = 0
            pending.append({'tag': s['tag'], 'cls': 'int', 'due': now + d, 'seq': s['seq'], 'name': s['name']})
        return st if failed_ev is None else 'failed step'

    nq = 0
    for k in range(level['K']):
        op = job['prefix'][k] if k < len(job['prefix']) else g.choice('op%d' % k, len(OPS))
        name = OPS[op]
        ops.append(name)
        if name in ('qa', 'qu'):
            nq += 1
            seq[0] += 1
            tag = 'e%d' % seq[0]
            if name == 'qa':
                d = g.real('d%d' % k, 0)
                it.queue(Event('a', tag=tag, delay=d))
            else:
                d = 0
                it.queue('u', tag=tag)
            pending.append({'tag': tag, 'cls': 'ext', 'due': it.time + d, 'seq': seq[0], 'name': name[1]})
        elif name == 'adv':
            a = g.real('a%d' % k, 0)
            it.clock.time = it.clock.time + a
        else:
            exec_step()
    # drain: move the clock beyond every due time, then every pending event must be consumed once
    ops.append('drain')
    for r in range(3 * level['K'] + 6):
        far = it.clock.time
        for p in pending:
            far = Ite(p['due'] > far, p['due'], far)
        it.clock.time = far
        st = exec_step()
        if st is None:
            break
    g.prove(st is None and not pending, 'every_event_consumed_exactly_once', info)
    g.witness('all_drained')
    g.sample({'chart': kind, 'ops': ops, 'consumed_order': consumed_tags})
