"""C09 -- contract checking is transparent.

Unit: Interpreter(ignore_contract=False) versus Interpreter(ignore_contract=True) on the same chart
and inputs, run in lock step through the public API with shared symbolic inputs.  Generated charts
carry contracts on states and transitions (probe conditions that hold) and guards that may use
idle()/after() with symbolic thresholds; the clock of both interpreters is advanced by the same
symbolic amounts.  The shipped elevator_contract.yaml and microwave_with_contracts.yaml are driven
by K events of their alphabets with symbolic numeric parameters (floor) and clock advances; paths
on which a contract fails are outside the property and are dropped.
Obligations per step: same macro step (consumed event, transitions, exits, entries, sent events),
same configuration and context, same meta-events seen by an attached listener; under
ignore_contract=True no condition probe is ever evaluated and no ContractError escapes.
"""
import os

from ..symex import Eq, And, is_sym
from .. import chartgen as cg
from ..steplib import Inst
from . import c08

ID = 'C09'
KINDS = [cg.BASIC, cg.COMPOUND, cg.ORTH, cg.FINAL]
LEVELS = {
    'quick': [
        {'name': 'L1-N3-M1-K2', 'harness': 'gen', 'N': 3, 'M': 1, 'K': 2, 'budget_s': 60},
        {'name': 'L2-N3-M2-K1', 'harness': 'gen', 'N': 3, 'M': 2, 'K': 1, 'budget_s': 60},
        {'name': 'L3-shipped-K2', 'harness': 'shipped', 'K': 2, 'budget_s': 90},
    ],
    'thorough': [
        {'name': 'L1-N3-M2-K2', 'harness': 'gen', 'N': 3, 'M': 2, 'K': 2, 'budget_s': 900},
        {'name': 'L2-N4-M1-K2', 'harness': 'gen', 'N': 4, 'M': 1, 'K': 2, 'budget_s': 900},
        {'name': 'L2b-N4-M2-K1', 'harness': 'gen', 'N': 4, 'M': 2, 'K': 1, 'budget_s': 1800},
        {'name': 'L3-shipped-K4', 'harness': 'shipped', 'K': 4, 'budget_s': 1800},
    ],
}
WITNESSES = ['time_guard_fired', 'internal_transition_with_idle', 'contracts_evaluated_in_checked_run',
             'shipped_elevator_moved', 'shipped_microwave_step']
STUBS = ['condition probes C(...) hold in the checked run and record any evaluation in the ignoring run',
         'guards "G(t, event)" optionally conjoined with idle(DI)/after(DA), DI/DA symbolic reals']
ASSUMPTIONS = ['runs in which no contract condition fails or errs (other paths are dropped, counted by a witness)',
               'clock advances >= 0 applied identically to both interpreters', 'events: a / none (generated), '
               'chart alphabets (shipped)']
OUTSIDE = ['charts above the bounds of the completed level', 'evaluators other than PythonEvaluator']
GVAR = ['plain', 'idle', 'after']


def shards(level):
    if level['harness'] == 'shipped':
        return [{'shipped': n, 'first': e} for n in ('elevator', 'microwave') for e in range(4)]
    return cg.split_shards(cg.skeletons(level['N'], KINDS), level['M'], nevents=1)


def expand(job, level):
    if 'chart' in job or 'shipped' in job:
        yield job
        return
    for ch in cg.charts(job['skel'], level['M'], nevents=1, targets='free', fix=job.get('fix')):
        yield {'chart': ch}


def canary_job():
    ch = {'N': 3, 'par': [-1, 0, 0], 'kind': [cg.COMPOUND, cg.BASIC, cg.BASIC], 'init': [1, -1, -1],
          'tr': [[1, 2, 1]]}
    return {'chart': ch}, {'name': 'canary', 'harness': 'gen', 'N': 3, 'M': 1, 'K': 1}


def harness(g, job, level, canary=False):
    if 'shipped' in job:
        return shipped(g, job, level)
    return gen(g, job['chart'], level, canary)


def build(g, chart, gvar):
    key = ('c09', gvar)
    if ('chart', key) in g.cache:
        return g.cache[('chart', key)]

    def code(kind, ident):
        if kind == 'guard':
            # the guard also records whether contract-only names are visible to it (they must never be)
            base = "G(%d, event) and NOTE('sent' in globals(), 'received' in globals(), '__old__' in globals())" % ident
            if gvar == 'idle':
                return base + ' and idle(DI)'
            if gvar == 'after':
                return base + ' and after(DA)'
            return base
        if kind == 'action':
            extra = "\nsend('b', k=v)" if ident == 0 else "\nnotify('note', k=v)"
            return "A(%d)\nv = v + 1" % ident + extra
        base = c08.hook(kind, ident).replace('\nL.append(1)', '').replace('\nQ.append(1)', '').replace('\nBOX.n += 1', '')
        if kind == 'exit' and ident == 0:     # what active() says when the outermost state is exited ends up in the
            # context; only contracts call active() earlier in the micro step (a cache filled by a contract shows here)
            base += "\nseen = seen + [[active(n) for n in NAMES]]"
        return base
    sc, trs, cm = cg.build(chart, 'id', code)
    for i in range(cm.n):
        st = sc.state_for(cm.names[i])
        st.preconditions.append("C('s', %d, 'pre')" % i)
        st.postconditions.append("C('s', %d, 'post') and __old__.v <= v and (active(NAMES[0]) or True)" % i)
        st.invariants.append("C('s', %d, 'inv') and (idle(0) or True)" % i)
    for t, tr in enumerate(trs):
        tr.preconditions.append("C('t', %d, 'pre')" % t)
        tr.postconditions.append("C('t', %d, 'post') and __old__.v < v" % t)
        tr.invariants.append("C('t', %d, 'inv')" % t)
    g.cache[('chart', key)] = (sc, trs, cm)
    return sc, trs, cm


def meta_key(e):
    d = {}
    for k, v in e.data.items():
        if k == 'event' and v is not None:
            v = (type(v).__name__, v.name, tuple(sorted((a, b) for a, b in v.data.items())))
        d[k] = v
    return (e.name, tuple(sorted(d.items(), key=lambda kv: kv[0])))


def same_values(xs, ys):
    """equality formula over two parallel structures that may hold symbolic numbers"""
    if isinstance(xs, (list, tuple)) and isinstance(ys, (list, tuple)):
        if len(xs) != len(ys):
            return False
        return And([same_values(a, b) for a, b in zip(xs, ys)] + [True])
    if isinstance(xs, dict) and isinstance(ys, dict):
        if set(xs) != set(ys):
            return False
        return And([same_values(xs[k], ys[k]) for k in xs] + [True])
    if is_sym(xs) or is_sym(ys):
        return Eq(xs, ys)
    return xs == ys


def step_view(inst, st, err):
    if err is not None:
        return ['error', type(err).__name__]
    if st is None:
        return None
    out = []
    for ms in st.steps:
        out.append([None if ms.transition is None else inst.tindex(ms.transition),
                    None if ms.event is None else [ms.event.name, dict(ms.event.data)],
                    list(ms.exited_states), list(ms.entered_states),
                    [[type(e).__name__, e.name, dict(e.data)] for e in ms.sent_events]])
    return [st.time, out]


def gen(g, chart, level, canary):
    from sismic.exceptions import ContractError, NonDeterminismError, ConflictingTransitionsError
    gvar = GVAR[g.choice('gvar', len(GVAR))]
    sc, trs, cm = build(g, chart, gvar)
    evaluated = {'chk': 0, 'ign': 0}

    def mkC(tag):
        def C(*a):
            evaluated[tag] += 1
            return tag == 'chk'       # holds when checked; would fail if it were evaluated while ignored
        return C
    def mkNOTE(tag):
        def NOTE(*flags):
            runs[tag].it.context['leaks'].append(flags)
            return True
        return NOTE
    v0 = g.int('v0')
    DI = g.real('DI', 0)
    DA = g.real('DA', 0)
    runs = {}
    metas = {}
    for tag, ign in (('chk', False), ('ign', True)):
        inst = Inst(g, chart, 'id', sc=(sc, trs, cm), tag=tag, interp_kwargs={'ignore_contract': ign},
                    extra_context={'C': mkC(tag), 'v': v0, 'DI': DI, 'DA': DA, 'seen': [], 'NAMES': list(cm.names),
                                   'NOTE': mkNOTE(tag), 'leaks': []})
        metas[tag] = []
        inst.it.attach(lambda e, tag=tag: metas[tag].append(meta_key(e)))
        runs[tag] = inst
    chk, ign = runs['chk'], runs['ign']
    hist = []
    info = lambda: {'chart': cm.describe(), 'guards': gvar, 'events': hist}   # noqa: E731

    def compare(sa, ea, sb, eb, where):
        va, vb = step_view(chk, sa, ea), step_view(ign, sb, eb)
        if canary and vb is not None and vb[0] != 'error':
            vb = [vb[0], vb[1] + [[None, None, [], [], []]]]
        ca = {k: v for k, v in chk.it.context.items() if k not in ('G', 'A', 'P', 'C', 'NOTE')}
        cb = {k: v for k, v in ign.it.context.items() if k not in ('G', 'A', 'P', 'C', 'NOTE')}
        g.prove_all([
            ('same_macro_step', same_values(va, vb), lambda: dict(info(), checked=str(va), ignored=str(vb), where=where)),
            ('same_configuration', chk.it.configuration == ign.it.configuration, info),
            ('same_context', same_values(ca, cb), info),
            ('same_meta_events', same_values(metas['chk'], metas['ign']),
             lambda: dict(info(), checked=str(metas['chk'][-12:]), ignored=str(metas['ign'][-12:]))),
            ('ignored_contracts_never_evaluated', evaluated['ign'] == 0, info),
        ])
    a = chk.init()
    b = ign.init()
    compare(a, None, b, None, 'init')
    for k in range(level['K']):
        adv = g.real('adv%d' % k, 0)
        ev = [None, 'a'][g.choice('ev%d' % k, 2)]
        hist.append(ev)
        for inst in (chk, ign):
            inst.it.clock.time = inst.it.clock.time + adv
        sa, ea, la = chk.step(k, ev)
        sb, eb, lb = ign.step(k, ev)
        g.prove(not isinstance(eb, ContractError), 'no_contract_error_when_ignored', info)
        if isinstance(ea, ContractError):
            g.fail('probe_conditions_hold_but_contract_error', lambda: dict(info(), error=repr(ea)))
        compare(sa, ea, sb, eb, 'step%d' % k)
        if ea is not None:
            return
        if sa is not None and sa.transitions and gvar != 'plain':
            g.witness('time_guard_fired')
            if any(t.target is None for t in sa.transitions) and gvar == 'idle':
                g.witness('internal_transition_with_idle')
    if evaluated['chk']:
        g.witness('contracts_evaluated_in_checked_run')
    g.sample({'chart': cm.describe(), 'guards': gvar, 'events': hist})


SHIPPED = {
    'elevator': ('docs/examples/elevator/elevator_contract.yaml',
                 [('floorSelected', 'floor'), ('floorSelected', 'floor'), (None, None), (None, None)]),
    'microwave': ('docs/examples/microwave/microwave_with_contracts.yaml',
                  [('door_opened', None), ('item_placed', None), ('door_closed', None), ('timer_inc', None),
                   ('cooking_start', None), ('timer_tick', None), ('cooking_stop', None), ('item_removed', None),
                   ('timer_dec', None), ('timer_reset', None), (None, None)]),
}


def shipped(g, job, level):
    from sismic.io import import_from_yaml
    from sismic.interpreter import Interpreter
    from sismic.exceptions import ContractError
    from ..runner import REPO
    name = job['shipped']
    path, alphabet = SHIPPED[name]
    key = ('shipped', name)
    if key not in g.cache:
        g.cache[key] = import_from_yaml(filepath=os.path.join(REPO, path))
    sc = g.cache[key]
    chk = Interpreter(sc)
    ign = Interpreter(sc, ignore_contract=True)
    metas = {'chk': [], 'ign': []}
    chk.attach(lambda e: metas['chk'].append(meta_key(e)))
    ign.attach(lambda e: metas['ign'].append(meta_key(e)))
    hist = []
    info = lambda: {'chart': name, 'events': hist}   # noqa: E731

    def view(st):
        if st is None:
            return None
        return [st.time, None if st.event is None else [st.event.name, dict(st.event.data)],
                [[t.source, t.target, t.event] for t in st.transitions], st.exited_states, st.entered_states,
                [[type(e).__name__, e.name, dict(e.data)] for e in st.sent_events]]

    def both(fn):
        outs = []
        for it in (chk, ign):
            try:
                outs.append((fn(it), None))
            except ContractError as e:
                outs.append((None, e))
        return outs
    outs = both(lambda it: it.execute_once())
    if outs[0][1] is not None:
        g.witness('contract_failure_path_dropped')
        return
    nalpha = len(alphabet)
    for k in range(level['K']):
        if k == 0:
            pick = job['first'] % nalpha
        else:
            pick = g.choice('e%d' % k, nalpha)
        evn, par = alphabet[pick]
        adv = g.real('adv%d' % k, 0, 30)
        params = {}
        if par:
            params[par] = g.int('floor%d' % k, 0, 4)
        hist.append(evn)
        for it in (chk, ign):
            it.clock.time = it.clock.time + adv
            if evn:
                it.queue(evn, **params)
        # run both to quiescence (bounded), comparing each macro step
        for r in range(12):
            outs = both(lambda it: it.execute_once())
            (sa, ea), (sb, eb) = outs
            g.prove(eb is None, 'no_contract_error_when_ignored', info)
            if ea is not None:
                g.witness('contract_failure_path_dropped')
                return
            ca = dict(chk.context)
            cb = dict(ign.context)
            g.prove_all([
                ('same_macro_step', same_values(view(sa), view(sb)),
                 lambda: dict(info(), checked=str(view(sa)), ignored=str(view(sb)))),
                ('same_configuration', chk.configuration == ign.configuration, info),
                ('same_context', same_values(ca, cb), lambda: dict(info(), checked=str(ca), ignored=str(cb))),
                ('same_meta_events', same_values(metas['chk'], metas['ign']), info),
            ])
            if sa is None:
                break
            if name == 'elevator' and any(x.startswith('moving') for x in sa.entered_states):
                g.witness('shipped_elevator_moved')
            if name == 'microwave' and sa.transitions:
                g.witness('shipped_microwave_step')
    g.sample({'chart': name, 'events': hist})
