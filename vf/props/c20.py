"""C20 -- async runner: no step unreported, no event lost, orderly lifecycle.

Unit: the real sismic.runner.AsyncRunner (start/stop/pause/unpause/wait/execute/_run and its hooks) on a
real Interpreter, with `threading` and `time` as seen by sismic/runner/runner.py replaced by deterministic
shims (vf/sched.py): real OS threads, one baton, a switch only at a yield point.  The schedule is
solver-enumerated: at every yield point the next thread is a bounded choice, explored exhaustively up to
a preemption bound.  Yield points: every Event/Thread/sleep operation, every hook, entry and exit of
execute_once, and (levels with lines=1) every source line of Interpreter._queue_event/_select_event via
sys.settrace.  Solver-enumerated as well: the client script (start, queue, pause, unpause, let-run, stop,
wait), execute_all.  Obligations after the script: reported steps == executed steps (once, in order, one
execute_once per cycle unless execute_all), every queued event consumed exactly once in FIFO order (runner
plus a final drain), before_run/after_run once, after pause() returned at most the cycle under way begins
before unpause() -- none once the runner has come to rest --, stop() returns and nothing runs afterwards,
the runner ends by itself when the chart is final.
"""
import sys

from .. import sched as S

ID = 'C20'
MID = ['qa', 'pause', 'unpause', 'sync']
LEVELS = {
    'quick': [
        {'name': 'L1-len3-p2', 'len': 3, 'preempt': 2, 'sync_yields': 3, 'cycles': 14, 'budget_s': 150},
        {'name': 'L2-lines-p1', 'len': 0, 'preempt': 1, 'lines': 1, 'line_scripts': 1, 'sync_yields': 3, 'cycles': 12,
         'max_switches': 600, 'budget_s': 120},
        {'name': 'L3-len4-p2', 'len': 4, 'preempt': 2, 'sync_yields': 3, 'cycles': 16, 'budget_s': 120},
        {'name': 'L4-len2-p1-lines', 'len': 2, 'preempt': 1, 'lines': 1, 'sync_yields': 3, 'cycles': 12, 'max_switches': 600,
         'budget_s': 60},
    ],
    'thorough': [
        {'name': 'L5-len3-p3', 'len': 3, 'preempt': 3, 'sync_yields': 3, 'cycles': 14, 'budget_s': 1800},
        {'name': 'L6-lines-p2', 'len': 0, 'preempt': 2, 'lines': 1, 'line_scripts': 1, 'sync_yields': 3, 'cycles': 12,
         'max_switches': 600, 'budget_s': 2400},
        {'name': 'L7-len3-p1-lines', 'len': 3, 'preempt': 1, 'lines': 1, 'sync_yields': 3, 'cycles': 12, 'max_switches': 600,
         'budget_s': 1800},
        {'name': 'L8-len5-p1', 'len': 5, 'preempt': 1, 'sync_yields': 3, 'cycles': 18, 'budget_s': 1800},
    ],
}
WITNESSES = ['stop_while_executing', 'paused_then_stopped', 'event_queued_while_paused', 'runner_ended_on_final',
             'two_events_consumed_in_order', 'execute_all_cycle_with_two_steps', 'preempted']
STUBS = ['threading.Event/Thread and time.time/sleep in sismic.runner.runner -> cooperative shims',
         'AsyncRunner.__del__ neutralised (it calls stop() from the garbage collector)',
         'interpreter.execute_once wrapped on the instance to record executed steps and add two yield points']
ASSUMPTIONS = ['one fixed chart (A -a-> B -a-> A, A -fin-> final)', 'preemption bound and runner-cycle cap as stated per level; '
               'capped paths are counted as truncated, never as passed', 'sleep and blocking waits are voluntary yields',
               'a cycle may still begin once after pause() returned if the runner had already passed its gate (lenient reading); '
               'after the runner has come to rest nothing may begin until unpause()']
OUTSIDE = ['switches inside C-level operations and GIL hand-over timing', 'more than one client thread',
           'line-level preemption outside _queue_event/_select_event']


def scripts(n):
    import itertools
    out = []
    for ln in range(n + 1):
        for mid in itertools.product(MID, repeat=ln):
            # drop scripts that only differ by leading unpause / unpause without pause
            ok, paused = True, False
            for op in mid:
                if op == 'unpause' and not paused:
                    ok = False
                if op == 'pause':
                    if paused:
                        ok = False
                    paused = True
                if op == 'unpause':
                    paused = False
            if ok:
                out.append(['start'] + list(mid) + ['stop'])
    out.append(['start', 'qfin', 'wait'])
    out.append(['start', 'qa', 'qfin', 'wait'])
    out.append(['qa', 'start', 'qfin', 'wait'])
    out.append(['qa', 'qa', 'start', 'sync', 'stop'])
    out.append(['start', 'qfin', 'stop'])
    out.append(['start', 'qfin', 'sync', 'stop'])
    out.append(['qfin', 'start', 'sync', 'stop'])
    out.append(['qfin', 'start', 'stop', 'stop'])
    return out


LINE_SCRIPTS = [['qa', 'qd', 'start', 'qa', 'sync', 'stop'], ['qa', 'start', 'qa', 'qa', 'sync', 'stop'],
                ['qd', 'qa', 'start', 'qa', 'sync', 'sync', 'stop'], ['qd', 'start', 'sync', 'qa', 'qa', 'sync', 'stop']]


def shards(level):
    if level.get('line_scripts'):
        return [{'script': s, 'all': a} for s in LINE_SCRIPTS for a in (0, 1)]
    return [{'script': s, 'all': a} for s in scripts(level['len']) for a in (0, 1)]


def canary_job():
    return {'script': ['start', 'qa', 'sync', 'stop'], 'all': 0}, {'name': 'canary', 'len': 2, 'preempt': 1}


def make_chart(g):
    if 'c20' in g.cache:
        return g.cache['c20']
    from sismic.model import Statechart, CompoundState, BasicState, FinalState, Transition
    sc = Statechart('r')
    sc.add_state(CompoundState('root', initial='A'), None)
    sc.add_state(BasicState('A'), 'root')
    sc.add_state(BasicState('B'), 'root')
    sc.add_state(FinalState('F'), 'root')
    sc.add_transition(Transition('A', 'B', event='a'))
    sc.add_transition(Transition('B', 'A', event='a'))
    sc.add_transition(Transition('A', 'F', event='fin'))
    sc.add_transition(Transition('B', 'F', event='fin'))
    g.cache['c20'] = sc
    return sc


def classify(label, info, item):
    # the recorded finding is one specific history: the client was preempted inside Interpreter._queue_event
    # between computing the insertion index (bisect) and `queue.insert(position, ...)`, the runner executed a macro
    # step meanwhile, and as a result a due event sits behind a delayed one: it is left unconsumed (no event is
    # consumed twice, the consumed ones are in FIFO order).  Anything else -- another window, a duplicate, a
    # reordering -- is a different violation and is reported.
    info = info or {}
    if label == 'every_event_consumed_once_fifo' and info.get('client_preempted_between_bisect_and_insert'):
        queued, consumed = info.get('queued') or [], info.get('consumed') or []
        no_dup = len(set(consumed)) == len(consumed)
        in_order = consumed == [t for t in queued if t in consumed]
        if no_dup and in_order and len(consumed) < len(queued) and 'qd' in (info.get('script') or []):
            return 'queue_race_bisect_insert'
    return label


def insert_line():
    """line number of `queue.insert(position, ...)` in the current source of Interpreter._queue_event (None if absent)"""
    import inspect
    from sismic.interpreter import Interpreter
    try:
        src, start = inspect.getsourcelines(Interpreter._queue_event)
    except (OSError, TypeError):
        return None
    for i, ln in enumerate(src):
        if 'queue.insert(position' in ln:
            return start + i
    return None


def race_window(tl, at_line=None):
    """the runner finished a macro step while the client was suspended inside _queue_event (at_line: suspended just
    before that source line)"""
    inside = False
    for x in tl:
        if x[0] == 'switch':
            if x[1] == 'main' and str(x[3]).startswith('line:_queue_event'):
                inside = at_line is None or str(x[3]) == 'line:_queue_event:%d' % at_line
            elif x[2] == 'main':
                inside = False
        elif x[0] == 'exec_end' and inside:
            return True
    return False


def harness(g, job, level, canary=False):
    import sismic.runner.runner as R
    from sismic.interpreter import Interpreter
    from sismic.model import Event
    R.threading = S.ShimThreading
    R.time = S.ShimTime
    R.AsyncRunner.__del__ = lambda self: None
    S.ShimThread.n = 0
    nchoice = [0]

    def chooser(k):
        nchoice[0] += 1
        return g.choice('s%d' % nchoice[0], k)
    sch = S.Sched(chooser, max_preempt=level['preempt'], max_switches=level.get('max_switches', 300))
    S.SCHED = sch
    it = Interpreter(make_chart(g))
    tl = []            # timeline
    sw0 = sch._switch_to

    def sw(nxt):
        if nxt is not sch.cur:
            tl.append(('switch', sch.cur.name, nxt.name, sch.trace[-1][0] if sch.trace else ''))
        sw0(nxt)
    sch._switch_to = sw
    executed, reported, calls_in_cycle = [], [], []
    cap = level.get('cycles', 8)
    real_once = it.execute_once

    def once():
        tl.append(('exec_begin',))
        sch.yield_point('execute_once:enter')
        st = real_once()
        if calls_in_cycle:
            calls_in_cycle[-1] += 1
        if st is not None:
            executed.append(st)
        sch.yield_point('execute_once:exit')
        tl.append(('exec_end',))
        return st
    it.execute_once = once

    class Obs(R.AsyncRunner):
        def before_run(self):
            tl.append(('before_run',))
            sch.yield_point('hook:before_run')

        def after_run(self):
            tl.append(('after_run',))
            sch.yield_point('hook:after_run')

        def before_execute(self):
            tl.append(('cycle_begin',))
            calls_in_cycle.append(0)
            if len(calls_in_cycle) > cap:
                sch.truncated = True
                sch.killed = True
                raise S.Killed()
            sch.yield_point('hook:before_execute')

        def after_execute(self, steps):
            reported.append(list(steps))
            tl.append(('cycle_end',))
            sch.yield_point('hook:after_execute')
    runner = Obs(it, interval=0, execute_all=bool(job['all']))
    gate = runner._unpaused if hasattr(runner, '_unpaused') else None
    if gate is not None and isinstance(gate, S.ShimEvent):
        gate.on_gate = lambda: tl.append(('gate',))      # the runner is let through its pause gate
    else:
        gate = None
    queued = []
    delayed = []       # queued with a delay that never elapses in this harness: must stay pending, must not block others
    lines = bool(level.get('lines'))

    def tracer(frame, event, arg):
        co = frame.f_code
        if co.co_name in ('_queue_event', '_select_event') and co.co_filename.endswith('default.py'):
            def local(frame, event, arg):
                if event == 'line' and S.SCHED is sch and not sch.killed:
                    sch.yield_point('line:%s:%d' % (frame.f_code.co_name, frame.f_lineno))
                return local
            return local
        return None
    if lines:
        spawn0 = sch.spawn

        def spawn(fn, name):
            def wrapped():
                sys.settrace(tracer)
                try:
                    fn()
                finally:
                    sys.settrace(None)
            return spawn0(wrapped, name)
        sch.spawn = spawn
        sys.settrace(tracer)
    outcome = {'deadlock': None}
    started = False
    try:
        for op in job['script']:
            if op == 'start':
                runner.start()
                started = True
                tl.append(('start_ret',))
            elif op in ('qa', 'qfin', 'qd'):
                tag = 'e%d' % (len(queued) + len(delayed) + 1)
                if op == 'qd':
                    delayed.append(tag)
                    it.queue(Event('a', tag=tag, delay=5))
                else:
                    queued.append(tag)
                    it.queue(Event('a' if op == 'qa' else 'fin', tag=tag))
                tl.append(('queued', tag))
                sch.yield_point('client:queued')
            elif op == 'pause':
                runner.pause()
                tl.append(('pause_ret',))
                sch.yield_point('client:paused')
            elif op == 'unpause':
                tl.append(('unpause_call',))
                runner.unpause()
            elif op == 'sync':
                for _ in range(level.get('sync_yields', 8)):
                    rt = sch.thread('T1')
                    if rt is None or rt.state != 'ready':
                        break
                    sch.yield_point('client:sync', voluntary=True)
                    rt = sch.thread('T1')
                    if rt is not None and rt.state == 'blocked':
                        break
                tl.append(('sync_done',))
            elif op == 'stop':
                tl.append(('stop_call',))
                runner.stop()
                tl.append(('stop_ret',))
            elif op == 'wait':
                tl.append(('wait_call',))
                runner.wait()
                tl.append(('wait_ret',))
    except S.Deadlock as e:
        outcome['deadlock'] = str(e)
    finally:
        if lines:
            sys.settrace(None)
        alive = [t.name for t in sch.threads[1:] if t.state != 'done']
        sch.shutdown()
        S.SCHED = None
    switches = [t for t in sch.trace if t[1] != t[2]]
    info = lambda: {'script': job['script'], 'execute_all': job['all'],   # noqa: E731
                    'timeline': [list(x) for x in tl if x[0] != 'switch'][-40:],
                    'switches': [list(x) for x in switches][-25:],
                    'runner_stepped_while_client_inside_queue_event': race_window(tl),
                    'client_preempted_between_bisect_and_insert': (race_window(tl, insert_line())
                                                                   if insert_line() is not None else False)}
    for t in sch.threads[1:]:
        if t.exc is not None and not isinstance(t.exc, S.Killed):
            from ..symex import Infeasible, PathEnd
            if isinstance(t.exc, (Infeasible, PathEnd)):
                raise t.exc
            g.fail('runner_thread_died', lambda: dict(info(), exception=repr(t.exc)))
    if sch.truncated:
        g.stats.capped += 1       # reported as truncated by the runner: never counted as passed
        return
    if sch.preempts:
        g.witness('preempted')
    g.prove(outcome['deadlock'] is None, 'stop_and_wait_always_return', lambda: dict(info(), deadlock=outcome['deadlock']))
    ended = 'stop' in job['script'] or 'wait' in job['script']
    if started and ended:
        g.prove(not alive, 'runner_thread_ended', lambda: dict(info(), alive=alive))
    names = [x[0] for x in tl]
    # ---- hooks
    g.prove(names.count('before_run') == (1 if started else 0) and names.count('after_run') == (1 if started and ended else 0),
            'before_run_and_after_run_exactly_once', info)
    # ---- every executed step reported once, in order
    flat = [s for lst in reported for s in lst]
    ok = len(flat) == len(executed) and all(a is b for a, b in zip(flat, executed))
    if canary:
        ok = ok and len(executed) == 0
    g.prove(ok, 'every_executed_step_reported_once_in_order',
            lambda: dict(info(), executed=len(executed), reported=[len(x) for x in reported]))
    if not job['all']:
        g.prove(all(len(x) <= 1 for x in reported) and all(c <= 1 for c in calls_in_cycle),
                'one_step_per_cycle', lambda: dict(info(), reported=[len(x) for x in reported], calls=calls_in_cycle))
    elif any(len(x) >= 2 for x in reported):
        g.witness('execute_all_cycle_with_two_steps')
    # ---- pause
    i = 0
    while i < len(tl):
        if tl[i][0] == 'pause_ret':
            begun, rest = 0, False
            j = i + 1
            while j < len(tl) and tl[j][0] != 'unpause_call':
                if tl[j][0] == 'sync_done':
                    rest = True
                    begun_after_rest = 0
                if tl[j][0] == 'cycle_begin':
                    begun += 1
                    if rest:
                        g.prove(False, 'nothing_begins_while_paused_and_at_rest', info)
                if tl[j][0] == 'queued':
                    g.witness('event_queued_while_paused')
                if tl[j][0] == 'stop_call':
                    g.witness('paused_then_stopped')
                j += 1
            g.prove(begun <= 1, 'at_most_the_cycle_under_way_after_pause', lambda: dict(info(), begun=begun))
            if gate is not None:
                # a cycle that begins while paused was "already under way" only if the runner had passed its pause
                # gate before pause() returned (and has not begun a cycle since)
                for j2 in range(i + 1, j):
                    if tl[j2][0] == 'cycle_begin':
                        k2 = j2 - 1
                        while k2 >= 0 and tl[k2][0] not in ('gate', 'cycle_begin'):
                            k2 -= 1
                        ok = k2 >= 0 and tl[k2][0] == 'gate' and k2 < i
                        g.prove(ok, 'cycle_begun_while_paused_was_already_past_the_gate', info)
            i = j
        i += 1
    # ---- stop
    if 'stop_ret' in names:
        k = names.index('stop_ret')
        g.prove(not any(x in ('cycle_begin', 'exec_begin', 'exec_end') for x in names[k + 1:]),
                'nothing_executes_after_stop_returned', info)
        kc = names.index('stop_call')
        if names[:kc].count('exec_begin') > names[:kc].count('exec_end'):
            g.witness('stop_while_executing')
    # ---- events: consumed exactly once, FIFO (runner, then a drain through the public API)
    consumed = [s.event.tag for s in executed if s.event is not None]
    by_runner = len(consumed)
    if not it.final:
        it.execute_once = real_once
        for s in it.execute():
            if s.event is not None:
                consumed.append(s.event.tag)
    expect = list(queued)
    if it.final and 'qfin' in job['script']:
        # events queued behind `fin` stay unconsumed once the chart is final: they must not be consumed twice
        expect = consumed if set(consumed) <= set(queued) and len(set(consumed)) == len(consumed) else expect
        g.prove(consumed == [t for t in queued if t in consumed], 'every_event_consumed_once_fifo',
                lambda: dict(info(), queued=queued, consumed=consumed))
    else:
        g.prove(consumed == expect, 'every_event_consumed_once_fifo',
                lambda: dict(info(), queued=queued, consumed=consumed))
    g.prove(not any(t in consumed for t in delayed), 'delayed_event_not_consumed_early', info)
    if by_runner >= 2:
        g.witness('two_events_consumed_in_order')
    if 'wait_ret' in names:
        g.prove(it.final and names.count('after_run') == 1, 'runner_ends_by_itself_when_final', info)
        g.witness('runner_ended_on_final')
    g.sample({'script': job['script'], 'execute_all': job['all'], 'switches': len(switches), 'cycles': len(calls_in_cycle)})
