"""C04 -- non-determinism and conflicts are reported, never silently resolved.

Unit: Interpreter.execute_once (selection + _sort_transitions) on generated charts
(basic/compound/orthogonal) with free transition sources and targets.  Symbolic scalars: guard bit
and unbounded integer priority per transition.  Solver-enumerated: chart, initial children
(=> every legal configuration), transitions.  Oracle: the fired set F from C01's rule as z3
terms; a pair of F is non-deterministic unless its sources lie in different children of a common
orthogonal state, and conflicting if they do but a target leaves its region.  After an error a
frozen follow-up step must find configuration, probe log and the pending event untouched.
"""
from ..symex import And, Or, Not, Iff
from .. import chartgen as cg
from ..steplib import Inst, micro_summary

ID = 'C04'
B, C, O = cg.BASIC, cg.COMPOUND, cg.ORTH
TEMPLATES = {
    # root||{p||{p1,p2}, q{a}}: nested orthogonal states, three sources at the same depth in two outer regions
    'TQ': {'N': 6, 'par': [-1, 0, 1, 1, 0, 4], 'kind': [O, O, B, B, C, B]},
    # root||{p||{p1{x},p2}, q{a}}: the same with unequal depths
    'TQ2': {'N': 7, 'par': [-1, 0, 1, 2, 1, 0, 5], 'kind': [O, O, C, B, B, C, B]},
}
LEVELS = {
    'quick': [
        {'name': 'L1-N3-M3', 'N': 3, 'M': 3, 'namings': ['id'], 'budget_s': 100},
        {'name': 'L1b-N3-M3-K2', 'N': 3, 'M': 3, 'K': 2, 'namings': ['id'], 'evented': 1, 'budget_s': 130},
        {'name': 'L2-N4-M2', 'N': 4, 'M': 2, 'namings': ['rev'], 'budget_s': 100},
        {'name': 'L3-TQ-M3', 'templates': ['TQ'], 'M': 3, 'namings': ['id', 'rev'], 'evented': 1, 'budget_s': 130},
    ],
    'thorough': [
        {'name': 'L1-N3-M3', 'N': 3, 'M': 3, 'namings': ['id', 'rev'], 'budget_s': 300},
        {'name': 'L2-N4-M3', 'N': 4, 'M': 3, 'namings': ['id'], 'budget_s': 1500},
        {'name': 'L3-N5-M2', 'N': 5, 'M': 2, 'namings': ['mix'], 'budget_s': 900},
        {'name': 'L4-TQ2-M3', 'templates': ['TQ2'], 'M': 3, 'namings': ['id', 'rev', 'mix'], 'evented': 1, 'budget_s': 900},
    ],
}
WITNESSES = ['nondeterminism_reported', 'conflict_reported', 'parallel_ok', 'same_source_pair',
             'nothing_changed_after_error']
STUBS = ['guards "G(t, event)" -> symbolic bit; entry/exit/action probes log only']
ASSUMPTIONS = ['well-formed charts (DESIGN §2) over basic/compound/orthogonal states, free targets',
               'one pending external event a; transitions on another event are equivalent to a false guard',
               'priorities: unbounded integers', 'PythonEvaluator']
OUTSIDE = ['charts above the N/M bound of the completed level', 'history/final states (own no transitions; '
           'targets into them do not change the region test)']


def shards(level):
    if 'templates' in level:
        out = []
        for name in level['templates']:
            out.extend(dict(sh, template=name) for sh in cg.split_shards([dict(TEMPLATES[name])], level['M'], nevents=1,
                                                                          evented_only=bool(level.get('evented'))))
        return out
    sk = cg.skeletons(level['N'], [cg.BASIC, cg.COMPOUND, cg.ORTH])
    return cg.split_shards(sk, level['M'], nevents=1, evented_only=bool(level.get('evented')))


def expand(job, level):
    if 'chart' in job:
        yield job['chart']
        return
    yield from cg.charts(job['skel'], level['M'], nevents=1, targets='free', fix=job.get('fix'),
                         evented_only=bool(level.get('evented')))


def canary_job():
    ch = {'N': 3, 'par': [-1, 0, 0], 'kind': [cg.ORTH, cg.BASIC, cg.BASIC], 'init': [-1, -1, -1],
          'tr': [[1, 1, 1], [2, 2, 1]]}
    return {'chart': ch}, {'name': 'canary', 'N': 3, 'M': 2, 'namings': ['id']}


def region_of(cm, a, b):
    """if src a and src b lie in different children of a common orthogonal state return
    (child containing a, child containing b) else None"""
    if a == b:
        return None
    o = cm.lca_strict(a, b)
    if o < 0 or cm.kind[o] != cg.ORTH:
        return None
    ca = [c for c in cm.children[o] if c == a or cm.is_anc(c, a)]
    cb = [c for c in cm.children[o] if c == b or cm.is_anc(c, b)]
    if not ca or not cb or ca[0] == cb[0]:
        return None       # one source is the orthogonal state itself / same child
    return ca[0], cb[0]


def harness(g, chart, level, canary=False):
    namings = level.get('namings', ['id'])
    naming = namings[g.choice('naming', len(namings))]
    m = len(chart['tr'])
    g.const_hash = True
    prio = [g.int('p%d' % t) for t in range(m)]
    inst = Inst(g, chart, naming, priorities=prio)
    inst.init()
    # K macro steps on one interpreter: an earlier, error-free step must not change the verdict of a later one
    for k in range(level.get('K', 1)):
        if not one_step(g, inst, k, prio, canary):
            return
    g.sample({'chart': inst.cm.describe(), 'outcome': 'ok', 'steps': level.get('K', 1)})


def one_step(g, inst, k, prio, canary):
    """returns True if the step ran without error (so that a further step makes sense)"""
    from sismic.exceptions import NonDeterminismError, ConflictingTransitionsError
    cm, it = inst.cm, inst.it
    m = len(cm.tr)
    conf = it.configuration
    active = {cm.idx[c] for c in conf}
    if not conf:
        return False
    inst.step_no = k
    gb = [inst.bit(t, k) for t in range(m)]
    src = [t[0] for t in cm.tr]
    tgt = [t[1] for t in cm.tr]
    evn = [cg.EVENTS[t[2]] for t in cm.tr]
    enabled = [And(src[t] in active, gb[t]) for t in range(m)]
    any_eventless = Or([enabled[t] for t in range(m) if evn[t] is None] + [False])
    comp = [enabled[t] if evn[t] is None else And(enabled[t], Not(any_eventless)) for t in range(m)]
    F = []
    for t in range(m):
        inner = [comp[u] for u in range(m) if cm.is_anc(src[t], src[u])]
        higher = [And(comp[u], prio[u] > prio[t]) for u in range(m) if u != t and src[u] == src[t]]
        F.append(And(comp[t], Not(Or(inner + [False])), Not(Or(higher + [False]))))
    nd_pairs, cf_pairs = [], []
    for a in range(m):
        for b in range(a + 1, m):
            reg = region_of(cm, src[a], src[b])
            both = And(F[a], F[b])
            if reg is None:
                nd_pairs.append(both)
                continue
            leaves = False
            for t, r in ((a, reg[0]), (b, reg[1])):
                if tgt[t] >= 0 and not (tgt[t] == r or cm.is_anc(r, tgt[t])):
                    leaves = True
            if canary:
                leaves = not leaves
            if leaves:
                cf_pairs.append(both)
    ND = Or(nd_pairs + [False])
    CF = Or(cf_pairs + [False])
    info = lambda: {'chart': cm.describe(), 'conf': conf, 'outcome': outcome, 'step': k}   # noqa: E731
    ctx_before = {k_: v for k_, v in it.context.items() if k_ not in ('G', 'A', 'P')}
    st, err, log = inst.step(k, 'a')
    outcome = 'ok' if err is None else type(err).__name__
    if err is None:
        g.prove_all([('no_error_means_no_nondeterminism', Not(ND), info),
                     ('no_error_means_no_conflict', Not(CF), info)])
        if st is not None and len(st.transitions) >= 2:
            g.witness('parallel_ok')
        # an eventless step leaves `a` pending: consume it quietly so that the next step starts clean
        if st is not None and st.event is None:
            inst.step(100 + k, None, frozen=True)
        return True
    if isinstance(err, NonDeterminismError):
        g.prove(ND, 'nondeterminism_error_only_if_nondeterministic_pair', info)
        g.witness('nondeterminism_reported')
        if any(src[a] == src[b] for a in range(m) for b in range(a + 1, m)):
            g.witness('same_source_pair', Or([And(F[a], F[b]) for a in range(m) for b in range(a + 1, m)
                                              if src[a] == src[b]] + [False]))
    elif isinstance(err, ConflictingTransitionsError):
        g.prove(CF, 'conflict_error_only_if_conflicting_pair', info)
        g.witness('conflict_reported')
    else:
        outcome = repr(err)
        g.fail('unexpected_exception', info)
    # nothing exited, entered, executed or consumed
    touched = [e for e in log if e[0] != 'guard']
    ctx_after = {k_: v for k_, v in it.context.items() if k_ not in ('G', 'A', 'P')}
    g.prove(not touched and it.configuration == conf and ctx_after == ctx_before,
            'error_leaves_everything_untouched',
            lambda: {'chart': cm.describe(), 'log': log, 'conf': it.configuration})
    st2, err2, log2 = inst.step(200 + k, None, frozen=True)
    g.prove(err2 is None and st2 is not None and st2.event is not None and st2.event.name == 'a'
            and not st2.transitions and it.configuration == conf,
            'event_still_pending_after_error',
            lambda: {'chart': cm.describe(), 'step': micro_summary(inst, st2), 'err': repr(err2)})
    g.witness('nothing_changed_after_error')
    g.sample({'chart': cm.describe(), 'outcome': outcome, 'step': k})
    return False
