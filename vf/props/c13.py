"""C13 -- time is frozen per step; after() and idle() mean what they say.

Unit: Interpreter.execute_once/time, PythonEvaluator's time/after/idle in guards, actions and contracts,
through the public API.  Symbolic scalars (exact reals): the clock advance before every step, a clock
move performed *during* the step by action code, and the thresholds of after()/idle() -- boundary
cases (elapsed == d) are decided by the solver.  Solver-enumerated: chart (basic/compound/orthogonal),
transitions (internal and external), for each transition whether its guard is after(D) or idle(D),
events.  Oracle: entry/idle reference times derived from the returned macro steps (time of the step that
entered the state / in which it was entered or was the source of a fired transition); a time-guarded
transition fires iff now - d >= reference (under C01's selection rule); every `time` seen by code, the
'step started' meta-event and MacroStep.time equal the clock value sampled at the call; after()/idle() in
state invariants, in state postconditions (state just exited) and in transition postconditions (source exited)
agree with the same reference times.
"""
from ..symex import And, Or, Not, Iff, Eq
from .. import chartgen as cg
from ..steplib import Inst

ID = 'C13'
KINDS = [cg.BASIC, cg.COMPOUND, cg.ORTH]
LEVELS = {
    'quick': [
        {'name': 'L1-N3-M2-K2', 'N': 3, 'M': 2, 'K': 2, 'gks': 'alt', 'budget_s': 160},
        {'name': 'L2-N4-M1-K2', 'N': 4, 'M': 1, 'K': 2, 'budget_s': 60},
    ],
    'thorough': [
        {'name': 'L1-N3-M3-K2', 'N': 3, 'M': 3, 'K': 2, 'budget_s': 1200},
        {'name': 'L2-N4-M2-K2', 'N': 4, 'M': 2, 'K': 2, 'budget_s': 1800},
        {'name': 'L3-N3-M2-K3', 'N': 3, 'M': 2, 'K': 3, 'budget_s': 1200},
        {'name': 'L4-N5-M2-K1', 'N': 5, 'M': 2, 'K': 1, 'budget_s': 1200},
    ],
}
WITNESSES = ['after_fired', 'idle_fired', 'boundary_elapsed_equals_threshold', 'clock_moved_during_step',
             'idle_reset_by_internal_transition', 'composite_idle_while_child_fires', 'invariant_time_predicates',
             'postcondition_time_predicates']
STUBS = ['guards are "after(DA[t])" or "idle(DI[t])" with symbolic real thresholds',
         'action probe A(t) moves the interpreter clock by a symbolic real >= 0 during the step',
         'every code fragment passes the `time` variable it sees to a probe']
ASSUMPTIONS = ['well-formed charts (DESIGN §2) over basic/compound/orthogonal states', 'events a / none',
               'SimulatedClock advanced by assignment only', 'exact reals (IEEE-754 rounding outside the claim)']
OUTSIDE = ['charts above the bounds of the completed level', 'UtcClock / started SimulatedClock (C14)']


def shards(level):
    return cg.split_shards(cg.skeletons(level['N'], KINDS), level['M'], nevents=1)


def expand(job, level):
    if 'chart' in job:
        yield job['chart']
        return
    yield from cg.charts(job['skel'], level['M'], nevents=1, targets='free', fix=job.get('fix'))


def canary_job():
    ch = {'N': 3, 'par': [-1, 0, 0], 'kind': [cg.COMPOUND, cg.BASIC, cg.BASIC], 'init': [1, -1, -1],
          'tr': [[1, 2, 0]]}
    return {'chart': ch}, {'name': 'canary', 'N': 3, 'M': 1, 'K': 1}


def harness(g, chart, level, canary=False):
    from sismic.exceptions import NonDeterminismError, ConflictingTransitionsError
    m = len(chart['tr'])
    same_text = False
    if level.get('gks') == 'alt':       # two alternating patterns and two with textually identical guards
        flip = g.choice('gkflip', 4)
        if flip >= 2:
            same_text = True
            gk = [('after', 'idle')[flip - 2]] * m
        else:
            gk = [('after', 'idle')[(t + flip) % 2] for t in range(m)]
    else:
        gk = [('after', 'idle')[g.choice('gk%d' % t, 2)] for t in range(m)]
    if same_text:       # one shared threshold: every guard is the same string although the sources differ
        DX = g.real('DX', 0)
        D = [DX] * m
    else:
        D = [g.real('D%d' % t, 0) for t in range(m)]
    DC = g.real('DC', 0)
    times_seen = []
    inv_seen = []
    moved = [0]

    def hook(kind, ident):
        if kind == 'guard':
            return '%s(D[0])' % gk[ident] if same_text else '%s(D[%d])' % (gk[ident], ident)
        if kind == 'action':
            return 'A(%d)\nTM(time)\nMOVE(%d)\nTM(time)' % (ident, ident)
        if kind == 'entry':
            return "P('en', %d)\nTM(time)" % ident
        if kind == 'exit':
            return "P('ex', %d)\nTM(time)" % ident
        return None
    key = ('c13', tuple(gk), same_text)
    inst = Inst(g, chart, 'id', code_hook=hook, cache_key=key, extra_context={'D': D, 'DC': DC})
    cm, it = inst.cm, inst.it
    if ('inv', key) not in g.cache:       # contracts are added once per cached chart
        for i in range(cm.n):
            inst.sc.state_for(cm.names[i]).invariants.append('CI(%d, after(DC), idle(DC), time)' % i)
            # a state's postconditions are evaluated when it has just been exited: its entry/idle times still count
            inst.sc.state_for(cm.names[i]).postconditions.append('CP(%d, after(DC), idle(DC), time)' % i)
        if inst.trs:    # ... and so are the postconditions of a transition whose source state was exited
            inst.trs[0].postconditions.append('CT(0, after(DC), idle(DC), time)')
        g.cache[('inv', key)] = True
    names = cm.names
    cur = {'k': -1}

    def TM(t):
        times_seen.append(t)

    def MOVE(t):
        mv = g.real('mv%d_%d' % (cur['k'], t), 0)
        it.clock.time = it.clock.time + mv
        moved[0] += 1
        g.witness('clock_moved_during_step', mv > 0)

    def CI(i, a, d, t):
        inv_seen.append((i, a, d))
        times_seen.append(t)
        return True
    def CP(i, a, d, t):
        inst.log.append(('post', i, a, d))
        times_seen.append(t)
        return True

    def CT(t_, a, d, t):
        inst.log.append(('tpost', t_, a, d))
        times_seen.append(t)
        return True
    ctx = it.context
    ctx['TM'], ctx['MOVE'], ctx['CI'], ctx['CP'], ctx['CT'] = TM, MOVE, CI, CP, CT
    started = []

    def on_meta(e):
        seen_by_listener.append((e.name, it.time))      # what an observer reads from the interpreter at this moment
        if e.name == 'step started':
            started.append(e.time)
            # the clock moves right after the step time was sampled (a self-advancing clock / a busy listener)
            ls = g.real('ls%d' % cur['k'], 0)
            it.clock.time = it.clock.time + ls
            g.witness('clock_moved_during_step', ls > 0)
    seen_by_listener = []
    it.attach(on_meta)
    entry_ref, idle_ref = {}, {}
    pending = []
    hist = []
    info = lambda: {'chart': cm.describe(), 'guards': gk, 'events': hist}   # noqa: E731

    def after_step(st, now):
        conds = [('every_time_seen_is_step_time', And([Eq(x, now) for x in times_seen] + [True]),
                  lambda: dict(info(), seen=str(times_seen), now=str(now))),
                 ('step_started_carries_step_time', len(started) == 1 and Eq(started[0], now), info),
                 ('interpreter_time_is_step_time', Eq(it.time, now), info),
                 ('interpreter_time_is_step_time_at_every_meta_event',
                  And([Eq(t_, now) for _, t_ in seen_by_listener] + [True]),
                  lambda: dict(info(), seen=[(n_, str(t_)) for n_, t_ in seen_by_listener][:6], now=str(now)))]
        del seen_by_listener[:]
        # contracts evaluated in the middle of the step: replay the probe log with the reference times as they were
        # at that moment (entry: entry and idle := now; transition: idle of its source := now after its postconditions)
        er, ir = dict(entry_ref), dict(idle_ref)
        for e in list(inst.log):
            if e[0] == 'en':
                er[cm.idx[e[1]]] = ir[cm.idx[e[1]]] = now
            elif e[0] == 'act' and e[1] != 0:
                ir[cm.tr[e[1]][0]] = now
            elif e[0] == 'post':
                _, i, a, d = e
                conds.append(('after_in_state_postcondition', Iff(a, now - DC >= er.get(i, now)), lambda i=i: dict(info(), state=names[i])))
                conds.append(('idle_in_state_postcondition', Iff(d, now - DC >= ir.get(i, now)), lambda i=i: dict(info(), state=names[i])))
                g.witness('postcondition_time_predicates')
            elif e[0] == 'tpost':
                _, t_, a, d = e
                src_ = cm.tr[t_][0]
                conds.append(('after_in_transition_postcondition', Iff(a, now - DC >= er.get(src_, now)), info))
                conds.append(('idle_in_transition_postcondition', Iff(d, now - DC >= ir.get(src_, now)), info))
                ir[src_] = now
        if st is not None:
            conds.append(('macrostep_time_is_step_time', Eq(st.time, now), info))
            for ms in st.steps:
                for x in ms.exited_states:
                    pass
                if ms.transition is not None:
                    idle_ref[cm.idx[ms.transition.source]] = now
                for y in ms.entered_states:
                    entry_ref[cm.idx[y]] = now
                    idle_ref[cm.idx[y]] = now
        # invariants: what after(DC)/idle(DC) returned for each active state at the end of the step
        for i, a, d in inv_seen:
            conds.append(('after_in_contract', Iff(a, now - DC >= entry_ref.get(i, now)), lambda i=i: dict(info(), state=names[i])))
            conds.append(('idle_in_contract', Iff(d, now - DC >= idle_ref.get(i, now)), lambda i=i: dict(info(), state=names[i])))
            g.witness('invariant_time_predicates')
        g.prove_all(conds)

    now = it.clock.time          # sampled before the step: the listener moves the clock during the step
    st = inst.init()
    after_step(st, now)
    for k in range(level['K']):
        cur['k'] = k
        adv = g.real('adv%d' % k, 0)
        before = it.time
        it.clock.time = it.clock.time + adv
        g.prove(Eq(it.time, before), 'time_changes_only_at_execute_once', info)
        now = it.clock.time
        ev = [None, 'a'][g.choice('ev%d' % k, 2)]
        hist.append(ev)
        if ev is not None:
            pending.append(ev)
            it.queue(ev)
            g.prove(Eq(it.time, before), 'time_unchanged_by_queue', info)
        nxt = pending[0] if pending else None
        conf = {cm.idx[c] for c in it.configuration}
        # ---- oracle: which transitions fire at `now` (C01's rule with time guards)
        src = [t[0] for t in cm.tr]
        evn = [cg.EVENTS[t[2]] for t in cm.tr]
        tg = []
        for t in range(m):
            if src[t] in conf:
                ref = entry_ref[src[t]] if gk[t] == 'after' else idle_ref[src[t]]
                if canary:
                    tg.append(now - D[t] > ref)
                else:
                    tg.append(now - D[t] >= ref)
            else:
                tg.append(False)
        enabled = [And(src[t] in conf, evn[t] is None or nxt == evn[t], tg[t]) for t in range(m)]
        any_el = Or([enabled[t] for t in range(m) if evn[t] is None] + [False])
        comp = [enabled[t] if evn[t] is None else And(enabled[t], Not(any_el)) for t in range(m)]
        fires = [And(comp[t], Not(Or([comp[u] for u in range(m) if cm.is_anc(src[t], src[u])] + [False])))
                 for t in range(m)]
        del times_seen[:]
        del inv_seen[:]
        del started[:]
        stp, err, log = inst.step(k, None)
        if err is not None:
            if isinstance(err, (NonDeterminismError, ConflictingTransitionsError)):
                pairs = [And(fires[a], fires[b]) for a in range(m) for b in range(a + 1, m)]
                g.prove(Or(pairs + [False]), 'error_only_if_two_fire', info)
                return
            g.fail('unexpected_exception', lambda: dict(info(), exception=repr(err)))
        obs = [] if stp is None else [inst.tindex(x) for x in stp.transitions]
        if stp is not None and stp.event is not None:
            pending.pop(0)
        g.prove_all([('time_guard_fires_iff_elapsed[t%d]' % t, Iff(t in obs, fires[t]),
                      lambda t=t: dict(info(), t=t, observed=obs)) for t in range(m)])
        for t in obs:
            ref = entry_ref[src[t]] if gk[t] == 'after' else idle_ref[src[t]]
            g.witness('after_fired' if gk[t] == 'after' else 'idle_fired')
            g.witness('boundary_elapsed_equals_threshold', Eq(now - D[t], ref))
            if cm.tr[t][1] < 0 and gk[t] == 'idle':
                g.witness('idle_reset_by_internal_transition')
            for a in cm.ancestors(src[t]):
                if any(src[u] == a and gk[u] == 'idle' for u in range(m)):
                    g.witness('composite_idle_while_child_fires')
        after_step(stp, now)
    g.sample({'chart': cm.describe(), 'guards': gk, 'events': hist})
