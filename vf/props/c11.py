"""C11 -- YAML export/import round-trip is lossless.

Unit: sismic.io.export_to_yaml/import_from_yaml with export_to_dict/import_from_dict (real ruamel.yaml
and schema underneath), element __eq__.  Three layers:
 names  -- generated charts (six kinds) whose state and event names are drawn by the solver from a pool of
           YAML-hostile strings (booleans, numbers, `x: y`, `- z`, `#c`, quotes, unicode, blanks, multi-line,
           surrounding whitespace); code fields are probes, so the original and the re-imported chart are also
           run in lock step with shared symbolic guard bits;
 code   -- the same charts with simple names and every code field (entry/exit/guard/action/contracts/preamble,
           description, chart name) drawn from pools of hostile but valid Python; field-by-field equality,
           == on states and transitions, concrete lock-step run;
 dict   -- import_from_dict(export_to_dict(sc)) with the priority an unbounded symbolic integer: the
           low/high/default/other mapping is decided for every integer.
Strings are concrete on every path (solver-enumerated placement); the YAML text layer cannot be symbolic.
"""
from ..symex import Eq
from .. import chartgen as cg
from ..steplib import Inst
from .c07 import trace_of

ID = 'C11'
ALL = [cg.BASIC, cg.COMPOUND, cg.ORTH, cg.FINAL, cg.SH, cg.DH]
NAME_POOL = ['true', '1', 'x: y', '- z', '#c', "it's", '"q"', 'été', 'a b', '{b}', '|', '*a', '~', '1e3',
             'null', 'yes', 'multi\nline', ' lead', 'trail ', '[l]', '0x1F', '>', '%d', 'a,b', "'", '\ttab', 'No',
             '2024-01-01', ':', '?k', '!tag', '&anc', 'end.']
EVENT_POOL = ['a', 'true', '1', 'x: y', 'a b', 'é', '#e', "e'v", '- e', 'e v', '~']
CODE_POOL = ["x = 'a: b'", "x = '#c'  # comment", 'x = "q"', "x = {'b': 1}", "x = 1 | 2", "x = 3 * 4",
             "if True:\n    x = 1\nelse:\n    x = 2", "x = 'é'", "x = '''a\nb'''", "x = 'it''s'",
             "x = [1,\n     2]", "x = 'yes'", "x = 1e3", "x = '- z'", "x = '%d' % 3", "x = 'a' if 1 else 'b'",
             "x = '\\\\n'", "x = \"{}\".format('~')", "pass", "x = None",
             "x = 1\n    \ny = 2", "x = '''a\n  \nb'''", "if True:\n    x = 1\n\t\n    y = 2",
             "x = 1\r\ny = 2", "x = 1\ny = '\x0c'", "x = 1\ny = '\u2028'", "x = '\x85'\ny = 2", "x = '\x1b'",
             "x = 1\ny = '\ufeff'", "x='\x07'\ny=1"]
EXPR_POOL = ["'a: b' != ''", "not ({} or [])", "1e3 > 0", "True", "1", "'#' in '#c'", "'é' == 'é' or False",
             "(1,\n 2) != ()", "'yes' != 'no'", "[x for x in 'ab'] != []", "'- z' > ''", "not None", "0 == 0  # zero",
             "'\"q\"' != \"'\"", "2 | 1", "1 if True else 0"]
DESC_POOL = ['plain', 'multi\nline\ntext', 'x: y', '#not a comment', "it's", ' surrounded ', 'é', '- item', '{a: 1}']
PRIO_POOL = [0, 1, -1, 2, -3, 5, 100]
LEVELS = {
    'quick': [
        {'name': 'L1-names-N4-M1', 'mode': 'names', 'N': 4, 'M': 1, 'K': 1, 'offsets': 2, 'budget_s': 100},
        {'name': 'L2-code-N4-M1', 'mode': 'code', 'N': 4, 'M': 1, 'K': 1, 'offsets': 2, 'budget_s': 100},
        {'name': 'L2b-code-N3-M2', 'mode': 'code', 'N': 3, 'M': 2, 'K': 1, 'offsets': 4, 'budget_s': 60},
        {'name': 'L3-dict-N3-M2', 'mode': 'dict', 'N': 3, 'M': 2, 'budget_s': 40},
        {'name': 'L5-code-N3-M3-interleaved', 'mode': 'code', 'N': 3, 'M': 3, 'K': 1, 'offsets': 2, 'kinds': 'bco',
         'nevents': 1, 'interleave': 1, 'targets': 'self_none', 'budget_s': 60},
        {'name': 'L4-names-N3-M1-alloff', 'mode': 'names', 'N': 3, 'M': 1, 'K': 1, 'offsets': 'all', 'budget_s': 60},
    ],
    'thorough': [
        {'name': 'L1-names-N4-M2', 'mode': 'names', 'N': 4, 'M': 2, 'K': 2, 'offsets': 'all', 'budget_s': 1800},
        {'name': 'L2-code-N4-M2', 'mode': 'code', 'N': 4, 'M': 2, 'K': 2, 'offsets': 'all', 'budget_s': 1800},
        {'name': 'L3-dict-N4-M3', 'mode': 'dict', 'N': 4, 'M': 3, 'budget_s': 600},
        {'name': 'L4-names-N5-M2', 'mode': 'names', 'N': 5, 'M': 2, 'K': 2, 'offsets': 3, 'budget_s': 1800},
        {'name': 'L5-code-N5-M1', 'mode': 'code', 'N': 5, 'M': 1, 'K': 2, 'offsets': 5, 'budget_s': 1200},
    ],
}
WITNESSES = ['hostile_name_round_trip', 'hostile_code_round_trip', 'priority_low', 'priority_high',
             'priority_default', 'priority_other', 'contracts_round_trip', 'history_round_trip', 'lockstep_run']
STUBS = ['names layer: code fields are probes (G/A/P); code layer: real code strings from the pools']
ASSUMPTIONS = ['strings are drawn from finite pools (listed in the module); placement rotates with a solver-chosen offset',
               'code compared modulo surrounding whitespace, empty == absent; == clause only for strings without '
               'surrounding whitespace', 'valid code = non-blank, syntactically valid Python', 'event names without surrounding whitespace (the importer strips event names by design)']
OUTSIDE = ['arbitrary YAML text / symbolic strings through ruamel (the text layer is concrete)', 'filepath= output',
           'charts above the bounds of the completed level']


def shards(level):
    kinds = ALL[:3] if level.get('kinds') == 'bco' else ALL
    return cg.split_shards(cg.skeletons(level['N'], kinds), level['M'], nevents=level.get('nevents', 2))


def expand(job, level):
    if 'chart' in job:
        yield job['chart']
        return
    yield from cg.charts(job['skel'], level['M'], nevents=level.get('nevents', 2), targets=level.get('targets', 'free'),
                         fix=job.get('fix'))


def canary_job():
    ch = {'N': 3, 'par': [-1, 0, 0], 'kind': [cg.COMPOUND, cg.BASIC, cg.BASIC], 'init': [1, -1, -1],
          'tr': [[1, 2, 1]]}
    return {'chart': ch}, {'name': 'canary', 'mode': 'code', 'N': 3, 'M': 1, 'K': 1, 'offsets': 1}


def norm(c):
    if c is None:
        return None
    c = c.strip()
    return c or None


def state_fields(sc, name):
    from sismic.model import (CompoundState, HistoryStateMixin)
    st = sc.state_for(name)
    return {'kind': type(st).__name__, 'parent': sc.parent_for(name),
            'children': sorted(sc.children_for(name)),
            'on_entry': norm(getattr(st, 'on_entry', None)), 'on_exit': norm(getattr(st, 'on_exit', None)),
            'initial': getattr(st, 'initial', None) if isinstance(st, CompoundState) else None,
            'memory': getattr(st, 'memory', None) if isinstance(st, HistoryStateMixin) else None,
            'pre': [norm(c) for c in st.preconditions], 'post': [norm(c) for c in st.postconditions],
            'inv': [norm(c) for c in st.invariants]}


def tr_fields(t):
    return {'source': t.source, 'target': t.target, 'event': norm(t.event), 'guard': norm(t.guard),
            'action': norm(t.action), 'priority': t.priority,
            'pre': [norm(c) for c in t.preconditions], 'post': [norm(c) for c in t.postconditions],
            'inv': [norm(c) for c in t.invariants]}


def compare_structure(g, sc, sc2, info, check_eq=True, skip_priority=False):
    g.prove(sc2.name == sc.name and norm(sc2.description) == norm(sc.description)
            and norm(sc2.preamble) == norm(sc.preamble), 'same_name_description_preamble',
            lambda: dict(info(), got=[sc2.name, sc2.description, sc2.preamble]))
    g.prove(sorted(sc.states) == sorted(sc2.states) and sc.root == sc2.root, 'same_states',
            lambda: dict(info(), got=sc2.states, want=sc.states))
    for nm in sc.states:
        a, b = state_fields(sc, nm), state_fields(sc2, nm)
        g.prove(a == b, 'same_state_fields', lambda: dict(info(), state=nm, want=a, got=b))
        if check_eq and _raw_no_ws(sc.state_for(nm)):
            g.prove(sc.state_for(nm) == sc2.state_for(nm), 'states_compare_equal', lambda: dict(info(), state=nm))
    for nm in sc.states:
        ta = [tr_fields(t) for t in sc.transitions_from(nm)] if _owner(sc, nm) else []
        tb = [tr_fields(t) for t in sc2.transitions_from(nm)] if _owner(sc2, nm) else []
        if skip_priority:
            for x in ta + tb:
                x.pop('priority')
        g.prove(ta == tb, 'same_transitions', lambda: dict(info(), source=nm, want=str(ta), got=str(tb)))
        if check_eq:
            for x, y in zip(sc.transitions_from(nm) if ta else [], sc2.transitions_from(nm) if tb else []):
                if _raw_no_ws(x) and not skip_priority:
                    g.prove(x == y, 'transitions_compare_equal', lambda: dict(info(), source=nm))
    g.prove(len(sc.transitions) == len(sc2.transitions), 'same_number_of_transitions', info)


def _owner(sc, nm):
    from sismic.model import TransitionStateMixin
    return isinstance(sc.state_for(nm), TransitionStateMixin)


def _raw_no_ws(obj):
    """the == clause is stated for code strings without surrounding whitespace (the importer strips them)"""
    vals = []
    for f in ('on_entry', 'on_exit', 'event', 'guard', 'action'):
        vals.append(getattr(obj, f, None))
    for f in ('preconditions', 'postconditions', 'invariants'):
        vals.extend(getattr(obj, f, []))
    return all(not isinstance(x, str) or (x == x.strip() and x != '') for x in vals)


def rot(pool, off, i, step=7):
    return pool[(off + i * step) % len(pool)]


def harness(g, chart, level, canary=False):
    mode = level['mode']
    if mode == 'names':
        return names_layer(g, chart, level)
    if mode == 'code':
        return code_layer(g, chart, level, canary)
    return dict_layer(g, chart, level)


def offsets(g, level, pool):
    n = level.get('offsets', 1)
    if n == 'all':
        return g.choice('off', len(pool))
    k = g.choice('off', n)
    # spread the offsets deterministically over the pool (depends on the chart so that charts differ)
    return (k * (len(pool) // max(1, n)) + g.cache.setdefault('salt', 0)) % len(pool)


def names_layer(g, chart, level):
    from sismic.io import export_to_yaml, import_from_yaml
    from sismic.exceptions import NonDeterminismError, ConflictingTransitionsError
    g.cache['salt'] = sum(chart['kind']) + 3 * sum(x[0] for x in chart['tr'])
    off = offsets(g, level, NAME_POOL)
    n = chart['N']
    names = []
    i = 0
    while len(names) < n:
        cand = rot(NAME_POOL, off, i)
        if cand not in names:
            names.append(cand)
        i += 1
    evs = [None, rot(EVENT_POOL, off, 0, 3), rot(EVENT_POOL, off, 1, 3)]
    if evs[1] == evs[2]:
        evs[2] = 'zz'
    ch = dict(chart, names=names)
    key = ('c11n', off)
    if key not in g.cache:
        import re
        base = Inst(g, ch, 'id', tag='orig')
        # event names: chartgen uses a/b; rename on the built chart through the public attribute
        for t, tr in zip(chart['tr'], base.trs):
            tr.event = evs[t[2]]
        text = export_to_yaml(base.sc)
        try:
            sc2 = import_from_yaml(text)
            trs2 = [None] * len(base.trs)
            for t in sc2.transitions:
                mt = re.match(r'G\((\d+), event\)', t.guard or '')
                if mt:
                    trs2[int(mt.group(1))] = t
            g.cache[key] = (base.sc, base.trs, base.cm, sc2, trs2, text, None)
        except Exception as e:
            g.cache[key] = (base.sc, base.trs, base.cm, None, None, text, e)
    sc, trs, cm, sc2, trs2, text, exc = g.cache[key]
    info = lambda: {'names': names, 'events': evs[1:], 'chart': cm.describe(), 'yaml': text[:600]}   # noqa: E731
    g.prove(exc is None, 'reimport_succeeds', lambda: dict(info(), exception=repr(exc)))
    compare_structure(g, sc, sc2, info)
    g.prove(all(t is not None for t in trs2), 'every_transition_found_again', info)
    g.witness('hostile_name_round_trip')
    if any(k >= cg.SH for k in chart['kind']):
        g.witness('history_round_trip')
    a = Inst(g, ch, 'id', sc=(sc, trs, cm), tag='orig')
    b = Inst(g, ch, 'id', sc=(sc2, trs2, cm), tag='back')
    ta, tb = trace_of(a, a.init(), None), trace_of(b, b.init(), None)
    g.prove(ta == tb, 'same_run', lambda: dict(info(), orig=str(ta), back=str(tb)))
    for k in range(level['K']):
        ev = evs[1 + g.choice('ev%d' % k, 2)]
        sa, ea, _ = a.step(k, ev)
        sb, eb, _ = b.step(k, ev)
        ta, tb = trace_of(a, sa, ea), trace_of(b, sb, eb)
        g.prove(ta == tb and a.it.configuration == b.it.configuration, 'same_run',
                lambda: dict(info(), orig=str(ta), back=str(tb)))
        if ea is not None:
            break
    g.witness('lockstep_run')
    g.sample({'names': names, 'events': evs[1:], 'chart': cm.describe()})


def code_layer(g, chart, level, canary=False):
    from sismic.io import export_to_yaml, import_from_yaml
    from sismic.interpreter import Interpreter
    g.cache['salt'] = sum(chart['kind']) + 5 * sum(x[1] + 1 for x in chart['tr'])
    off = offsets(g, level, CODE_POOL)
    pad = [('', ''), ('', '  '), ('', '\n'), ('\n', '  ')][off % 4]     # surrounding whitespace that keeps the code valid

    canon = {}
    for t_, tr_ in enumerate(chart['tr']):      # transitions with equal ends and event share their code: true duplicates
        canon[t_] = min(u for u, x in enumerate(chart['tr']) if x == tr_)

    def code(kind, ident):
        if kind == 'guard' and canon[ident] != ident:
            return 'True  # placeholder %d' % ident     # made equal to its twin after registration (see below)
        if kind in ('guard', 'action'):
            ident = canon[ident]
        if kind == 'guard':
            return rot(EXPR_POOL, off, ident, 5)
        if kind == 'action':
            return pad[0] + rot(CODE_POOL, off, 11 + ident) + pad[1]
        if kind == 'entry':
            return rot(CODE_POOL, off, ident) if (ident + off) % 3 else None
        if kind == 'exit':
            return rot(CODE_POOL, off, ident + 5) if (ident + off) % 2 else None
    key = ('c11c', off)
    if key not in g.cache:
        m_ = len(chart['tr'])
        # declaration order of transitions: canonical, or interleaved (sources A, B, A) when the level asks for it
        tro = ([0] + list(range(2, m_)) + [1]) if (level.get('interleave') and m_ >= 3) else None
        sc, trs, cm = cg.build(chart, 'id', code, name=rot(NAME_POOL, off, 0), preamble=rot(CODE_POOL, off, 3),
                               priorities=[rot(PRIO_POOL, off, canon[t], 3) for t in range(m_)], tr_order=tro)
        for t_ in range(m_):
            if canon[t_] != t_:       # a true duplicate that was produced by editing, not by add_transition
                trs[t_].guard = trs[canon[t_]].guard
        sc.description = rot(DESC_POOL, off, 0, 2)
        for i in range(cm.n):
            st = sc.state_for(cm.names[i])
            if (i + off) % 2 == 0:
                st.preconditions.append(rot(EXPR_POOL, off, i))
                st.invariants.append(rot(EXPR_POOL, off, i + 1))
                st.invariants.append(rot(EXPR_POOL, off, i + 2))
            if (i + off) % 3 == 0:
                st.postconditions.append(pad[0] + rot(EXPR_POOL, off, i + 3) + pad[1])
        for t, tr in enumerate(trs):
            t = canon[t]
            which = (t + off) % 4
            if which == 0:
                tr.invariants.append(rot(EXPR_POOL, off, t + 4))          # only `always`
            elif which == 1:
                tr.preconditions.append(rot(EXPR_POOL, off, t + 5))
                tr.postconditions.append(rot(EXPR_POOL, off, t + 6))
            elif which == 2:
                tr.postconditions.append(rot(EXPR_POOL, off, t + 7))
                tr.invariants.append(rot(EXPR_POOL, off, t + 8))
        text = export_to_yaml(sc)
        try:
            g.cache[key] = (sc, trs, cm, import_from_yaml(text), text, None)
        except Exception as e:
            g.cache[key] = (sc, trs, cm, None, text, e)
    sc, trs, cm, sc2, text, exc = g.cache[key]
    info = lambda: {'offset': off, 'chart': cm.describe(), 'yaml': text[:700]}   # noqa: E731
    g.prove(exc is None, 'reimport_succeeds', lambda: dict(info(), exception=repr(exc)))
    if canary:
        sc2.state_for(cm.names[1]).on_entry = 'pass  # canary'
    compare_structure(g, sc, sc2, info)
    g.witness('hostile_code_round_trip')
    if any(t.invariants or t.preconditions for t in trs):
        g.witness('contracts_round_trip')
    # concrete lock-step run of the real code strings
    runs = []
    evs = ['ab'[g.choice('ev%d' % k, 2)] for k in range(level['K'])]
    for s in (sc, sc2):
        try:
            it = Interpreter(s)
            tr = [_view(it.execute_once())]
            for k in range(level['K']):
                it.queue(evs[k])
                tr.append(_view(it.execute_once()))
            runs.append((tr, {k: v for k, v in it.context.items()}, it.configuration))
        except Exception as e:
            runs.append(('error', type(e).__name__))
    g.prove(runs[0] == runs[1], 'same_run', lambda: dict(info(), orig=str(runs[0])[:500], back=str(runs[1])[:500]))
    g.witness('lockstep_run')
    g.sample({'offset': off, 'chart': cm.describe(), 'yaml_head': text[:300]})


def _view(st):
    if st is None:
        return None
    return (None if st.event is None else st.event.name, [(t.source, t.target, t.event) for t in st.transitions],
            st.exited_states, st.entered_states, [e.name for e in st.sent_events])


def dict_layer(g, chart, level):
    from sismic.io.datadict import export_to_dict, import_from_dict
    m = len(chart['tr'])
    prio = [g.int('p%d' % t) for t in range(m)]
    sc, trs, cm = cg.build(chart, 'id', lambda k, i: 'G(%d, event)' % i if k == 'guard' else None, priorities=prio)
    d = export_to_dict(sc)
    info = lambda: {'chart': cm.describe()}   # noqa: E731
    try:
        sc2 = import_from_dict(d)
        exc = None
    except Exception as e:
        sc2, exc = None, e
    g.prove(exc is None, 'reimport_succeeds', lambda: dict(info(), exception=repr(exc)))
    compare_structure(g, sc, sc2, info, check_eq=False, skip_priority=True)
    import re
    back = {}
    for t in sc2.transitions:
        back[int(re.match(r'G\((\d+)', t.guard).group(1))] = t
    conds = []
    for t in range(m):
        conds.append(('priority_round_trip[t%d]' % t, Eq(prio[t], back[t].priority), info))
        g.witness('priority_low', prio[t] == -1)
        g.witness('priority_high', prio[t] == 1)
        g.witness('priority_default', prio[t] == 0)
        g.witness('priority_other', prio[t] > 5)
    g.prove_all(conds)
    g.sample({'chart': cm.describe(), 'layer': 'dict'})


# ------------------------------------------------------------------ CrossHair layer (symbolic str, bug hunting only)
def post_levels(tier, seed, report):
    """symbolic unicode strings through the dict layer with CrossHair (E2 of the design).  A counterexample is
    replayed concretely before it is reported; 'Not confirmed' is inconclusive and reported as such."""
    import os
    import re
    import subprocess
    import sys
    from ..runner import ROOT, REPO
    if os.environ.get('VERIF_C11_CROSSHAIR', '1' if tier == 'thorough' else '0') != '1':
        report['levels'].append({'level': 'crosshair-str-kernels', 'skipped': 'thorough tier only (VERIF_C11_CROSSHAIR=1 forces it)'})
        return []
    exe = os.path.join(os.path.dirname(sys.executable), 'crosshair')
    t = '60' if tier == 'thorough' else '15'
    env = dict(os.environ, PYTHONPATH=REPO + os.pathsep + ROOT)
    try:
        p = subprocess.run([exe, 'check', '--report_all', '--per_condition_timeout', t, os.path.join(ROOT, 'vf', 'xh_c11.py')],
                           capture_output=True, text=True, env=env, cwd=ROOT, timeout=400)
        out = p.stdout + p.stderr
    except Exception as e:
        report['errors'].append('crosshair could not be run: %r' % (e,))
        return []
    viol = []
    verdicts = []
    for line in out.splitlines():
        m = re.search(r'xh_c11.py:(\d+): (\w+): (.*)$', line)
        if not m:
            continue
        verdicts.append(m.group(3)[:160])
        mc = re.search(r'when calling (\w+\(.*\))', m.group(3))
        if m.group(2) == 'error' and mc:
            viol.append({'label': 'string_fields_survive_round_trip', 'call': mc.group(1)})
    report['levels'].append({'level': 'crosshair-str-kernels', 'tool': 'crosshair-tool (z3 string theory)', 'per_condition_timeout_s': int(t),
                             'kernels': ['transition_fields_survive', 'state_code_survives'], 'verdicts': verdicts,
                             'note': '"Not confirmed" = no counterexample within the timeout: inconclusive, not a pass'})
    return viol


def replay_special(rec):
    from .. import xh_c11
    call = rec['call']
    ok = eval(call, {'transition_fields_survive': xh_c11.transition_fields_survive,
                     'state_code_survives': xh_c11.state_code_survives})
    print(call, '->', ok)
    return not ok
