"""C07 -- execution is deterministic and independent of declaration order.

Unit: Interpreter.execute_once, Statechart.add_state/add_transition, export_to_yaml/import_from_yaml.
Two interpreters run in lock step on the same chart declared in two different ways (canonical order
through the API versus a permuted order through the API or through a YAML document), sharing the same
symbolic guard bits.  Solver-enumerated: chart, permutation of sibling-state and transition declaration
order, construction route (API, YAML, or editing: states attached elsewhere and moved into place), event history.  Obligation per step: same consumed event, transitions,
exit and entry lists, sent events and context, or the same kind of error.
Hash-seed clause: the solver cannot quantify over PYTHONHASHSEED; the same exploration is re-executed
in subprocesses under several seeds and the per-path trace digests are compared (a concrete
re-execution over a handful of seeds, stated as such).
"""
import hashlib
import itertools
import json
import os
import re
import subprocess
import sys

from .. import chartgen as cg
from ..steplib import Inst, micro_summary

ID = 'C07'
ALL = [cg.BASIC, cg.COMPOUND, cg.ORTH, cg.FINAL, cg.SH, cg.DH]
B, C, O, F, S, D = cg.BASIC, cg.COMPOUND, cg.ORTH, cg.FINAL, cg.SH, cg.DH
from .c02 import TEMPLATES as _C02T

TEMPLATES = {
    'TN1': _C02T['TN1'], 'TN2': _C02T['TN2'],
    # root{Z, P{Q||{R1{a,b}, R2{c,d}}, H*}}: deep history over orthogonal content
    'TD': {'N': 10, 'par': [-1, 0, 0, 2, 3, 4, 4, 3, 7, 2], 'kind': [C, B, C, O, C, B, B, C, B, D]},
    # root||{R1{a1,a2}, R2{b1,b2}, R3}: three regions
    'TE': {'N': 8, 'par': [-1, 0, 1, 1, 0, 4, 4, 0], 'kind': [O, C, B, B, C, B, B, B]},
}
FIXED = {
    # root{P{a, b, H1, H2}, Z}: two history states in one compound state; a->b, P->Z, Z->H2, Z->H1, b->a
    'two_hist': {'N': 7, 'par': [-1, 0, 1, 1, 1, 1, 0], 'kind': [C, C, B, B, S, S, B], 'init': [1, 2, -1, -1, 2, 2, -1],
                 'tr': [[2, 3, 1], [1, 6, 2], [6, 5, 2], [6, 4, 1], [3, 2, 1]]},
    # the same with deep history states over nested content root{P{Q{a,b}, c, H1*, H2*}, Z}
    'two_deep': {'N': 9, 'par': [-1, 0, 1, 2, 2, 1, 1, 1, 0], 'kind': [C, C, C, B, B, B, D, D, B],
                 'init': [1, 2, 3, -1, -1, -1, 2, 5, -1],
                 'tr': [[3, 4, 1], [1, 8, 2], [8, 7, 2], [8, 6, 1], [2, 5, 1]]},
}
LEVELS = {
    'quick': [
        {'name': 'L4-two-history-K4', 'fixed': ['two_hist', 'two_deep'], 'K': 4, 'variants': 'few', 'budget_s': 40},
        {'name': 'L1-N3-M2-K1', 'N': 3, 'M': 2, 'K': 1, 'variants': 'all', 'budget_s': 90},
        {'name': 'L1b-N3-M3-K1-prio', 'N': 3, 'M': 3, 'K': 1, 'nevents': 1, 'variants': 'few', 'prio': 1,
         'kinds': 'bco', 'targets': 'self_none', 'budget_s': 90},
        {'name': 'L1c-N3-M3-K1-free', 'N': 3, 'M': 3, 'K': 1, 'nevents': 1, 'variants': 'few', 'kinds': 'bco',
         'evented': 1, 'budget_s': 90},
        {'name': 'L2-N4-M1-K2', 'N': 4, 'M': 1, 'K': 2, 'variants': 'few', 'budget_s': 120},
        {'name': 'L3-TE-M1-K2', 'templates': ['TE'], 'M': 1, 'K': 2, 'nevents': 1, 'variants': 'few', 'budget_s': 60},
    ],
    'thorough': [
        {'name': 'L1-N3-M3-K2', 'N': 3, 'M': 3, 'K': 2, 'variants': 'all', 'budget_s': 900},
        {'name': 'L1b-N4-M3-K1-prio', 'N': 4, 'M': 3, 'K': 1, 'nevents': 1, 'variants': 'few', 'prio': 1,
         'kinds': 'bco', 'targets': 'self_none', 'budget_s': 900},
        {'name': 'L2-N4-M3-K2', 'N': 4, 'M': 3, 'K': 2, 'variants': 'few', 'budget_s': 1800},
        {'name': 'L3-N5-M2-K2', 'N': 5, 'M': 2, 'K': 2, 'variants': 'few', 'budget_s': 1800},
        {'name': 'L4-TDTE-M3-K2', 'templates': ['TD', 'TE'], 'M': 3, 'K': 2, 'nevents': 2, 'variants': 'few',
         'budget_s': 1800},
    ],
}
HASHSEED = {'quick': {'seeds': [0, 1, 2], 'levels': [
    {'name': 'H1-TD-M2-K3', 'templates': ['TD'], 'M': 2, 'K': 3, 'nevents': 2, 'hist_target': 1, 'guards': 0,
     'max_shards': 16, 'max_charts_per_shard': 60},
    {'name': 'H2-N4-M2-K2', 'N': 4, 'M': 2, 'K': 2, 'guards': 0, 'max_shards': 32, 'max_charts_per_shard': 100},
    {'name': 'H3-TN-M1-K2', 'templates': ['TN1', 'TN2'], 'M': 1, 'K': 2, 'nevents': 1, 'guards': 0}]},
            'thorough': {'seeds': [0, 1, 2, 3], 'levels': [
                {'name': 'H1-TD-M2-K3', 'templates': ['TD'], 'M': 2, 'K': 3, 'nevents': 2, 'hist_target': 1, 'guards': 0},
                {'name': 'H2-N4-M2-K2', 'N': 4, 'M': 2, 'K': 2, 'guards': 1, 'max_shards': 120},
                {'name': 'H3-N5-M1-K2', 'N': 5, 'M': 1, 'K': 2, 'guards': 1, 'max_shards': 200},
                {'name': 'H4-TN-M2-K2', 'templates': ['TN1', 'TN2'], 'M': 2, 'K': 2, 'nevents': 1, 'guards': 0}]}}
WITNESSES = ['yaml_route', 'api_permuted', 'built_by_editing', 'two_transitions_in_one_step', 'error_in_both', 'orthogonal_exit']
STUBS = ['guards "G(t, event)" shared by both runs (same z3 constants); entry/exit/action probes log']
ASSUMPTIONS = ['well-formed charts (DESIGN §2)', 'events from {a, b}', 'guards without side effects', 'priorities: unbounded symbolic integers shared by both runs, assigned after construction',
               'hash-seed clause: concrete re-execution under a handful of seeds, not a solver verdict']
OUTSIDE = ['charts above the bounds of the completed level', 'permutations beyond the variant family of the level '
           '("all": every topological state order x every transition order; "few": reversed and rotated orders)',
           'PYTHONHASHSEED values other than those listed']


def shards(level):
    if 'fixed' in level:
        return [{'chart': dict(FIXED[n])} for n in level['fixed']]
    if 'templates' in level:
        out = []
        for name in level['templates']:
            out.extend(dict(sh, template=name) for sh in
                       cg.split_shards([dict(TEMPLATES[name])], level['M'], nevents=level.get('nevents', 2)))
        return out
    kinds = [B, C, O] if level.get('kinds') == 'bco' else ALL
    return cg.split_shards(cg.skeletons(level['N'], kinds), level['M'], nevents=level.get('nevents', 2),
                           evented_only=bool(level.get('evented')))


def expand(job, level):
    if 'chart' in job:
        yield job['chart']
        return
    yield from cg.charts(job['skel'], level['M'], nevents=level.get('nevents', 2),
                         targets=level.get('targets', 'free'),
                         fix=job.get('fix'), hist_target=bool(level.get('hist_target')),
                         evented_only=bool(level.get('evented')))


def canary_job():
    ch = {'N': 4, 'par': [-1, 0, 0, 0], 'kind': [O, B, B, B], 'init': [-1, -1, -1, -1], 'tr': [[0, 0, 1]]}
    return {'chart': ch}, {'name': 'canary', 'N': 4, 'M': 1, 'K': 1, 'variants': 'all'}


def topo_orders(par, limit=None):
    n = len(par)
    out = []

    def rec(done, left):
        if limit and len(out) >= limit:
            return
        if not left:
            out.append(list(done))
            return
        for i in left:
            if par[i] < 0 or par[i] in done:
                rec(done + [i], [x for x in left if x != i])
    rec([], list(range(n)))
    return out


def variants(chart, mode):
    n, m = chart['N'], len(chart['tr'])
    par = chart['par']
    ident = list(range(n))
    # reversed sibling order: parents first, children in reverse index order (still topological)
    rev = []

    def walk(i):
        rev.append(i)
        for c in sorted([j for j in range(n) if par[j] == i], reverse=True):
            walk(c)
    walk(0)
    if mode == 'all':
        sorders = topo_orders(par)
        torders = [list(p) for p in itertools.permutations(range(m))]
    else:
        rot = list(range(m))[1:] + list(range(m))[:1]
        edits = [(ident, list(range(m)), 'edit:%s' % c) for c in cg.constructions(chart) if c is not None]
        return [(rev, list(range(m))[::-1], 'api'), (ident, list(range(m)), 'yaml'), (rev, rot, 'yaml')] + (
            [(ident, rot, 'api')] if m > 2 else []) + edits
    out = []
    for so in sorders:
        for to in torders:
            for route in ('api', 'yaml'):
                if route == 'api' and so == ident and to == list(range(m)):
                    continue
                out.append((so, to, route))
    return out


def via_yaml(sc, trs_n):
    from sismic.io import export_to_yaml, import_from_yaml
    sc2 = import_from_yaml(export_to_yaml(sc))
    trs = [None] * trs_n
    for t in sc2.transitions:
        mt = re.match(r'G\((\d+), event\)', t.guard or '')
        trs[int(mt.group(1))] = t
    return sc2, trs


def trace_of(inst, st, err):
    if err is not None:
        return ('error', type(err).__name__)
    if st is None:
        return None
    out = []
    for ms in st.steps:
        out.append((None if ms.transition is None else inst.tindex(ms.transition),
                    None if ms.event is None else ms.event.name,
                    tuple(ms.exited_states), tuple(ms.entered_states),
                    tuple((e.name, tuple(sorted(e.data.items()))) for e in ms.sent_events)))
    return tuple(out)


def ctx_of(inst):
    return {k: v for k, v in inst.it.context.items() if k not in ('G', 'A', 'P', 'S')}


def make_inst(g, chart, so, to, route, tag, prio=None):
    def hook(kind, ident):
        if kind == 'action':
            return "A(%d)\nn = n + 1 if 'n' in dir() else 1" % ident + ("\nsend('b', k=n)" if ident == 0 else '')
        return None
    key = ('c07', tag)
    if ('chart', key) in g.cache:
        return Inst(g, chart, 'id', sc=g.cache[('chart', key)], tag=tag, priorities=prio)
    if route == 'api':
        return Inst(g, chart, 'id', order=so, tr_order=to, code_hook=hook, tag=tag, cache_key=key, priorities=prio)
    if route.startswith('edit:'):   # same structure reached by editing: states attached elsewhere first, then moved
        mv = route[5:]
        return Inst(g, chart, 'id', order=so, tr_order=to, code_hook=hook, tag=tag, cache_key=key, priorities=prio,
                    moved='all' if mv == 'all' else int(mv))
    base = Inst(g, chart, 'id', order=so, tr_order=to, code_hook=hook, tag=tag + '-pre')
    sc2, trs = via_yaml(base.sc, len(chart['tr']))     # priorities are assigned after the YAML route (C11 covers them)
    g.cache[('chart', key)] = (sc2, trs, base.cm)
    return Inst(g, chart, 'id', sc=(sc2, trs, base.cm), tag=tag, priorities=prio)


def harness(g, chart, level, canary=False):
    vs = variants(chart, level.get('variants', 'few'))
    prio = None
    if level.get('prio'):
        g.const_hash = True
        prio = [g.int('p%d' % t) for t in range(len(chart['tr']))]
    ref = make_inst(g, chart, None, None, 'api', 'ref', prio)
    runs = [(make_inst(g, chart, so, to, route, 'v%d' % i, prio), so, to, route)
            for i, (so, to, route) in enumerate(vs)]
    cm = ref.cm
    for _, so, to, route in runs:
        g.witness('yaml_route' if route == 'yaml' else 'built_by_editing' if route.startswith('edit') else 'api_permuted')
    hist = []

    def info(so, to, route):
        return lambda: {'chart': cm.describe(), 'state_order': so, 'transition_order': to, 'route': route,
                        'events': hist}
    a = ref.init()
    ta = trace_of(ref, a, None)
    for var, so, to, route in runs:
        tb = trace_of(var, var.init(), None)
        if canary and tb:
            tb = tuple((x[0], x[1], x[2], tuple(sorted(x[3], reverse=True)), x[4]) for x in tb)
        g.prove(ta == tb, 'same_initial_step', lambda: dict(info(so, to, route)(), ref=ta, var=tb))
    for k in range(level['K']):
        ev = 'ab'[g.choice('ev%d' % k, 2)]
        hist.append(ev)
        sa, ea, _ = ref.step(k, ev)
        ta = trace_of(ref, sa, ea)
        for var, so, to, route in runs:
            sb, eb, _ = var.step(k, ev)
            tb = trace_of(var, sb, eb)
            g.prove(ta == tb, 'same_macro_step', lambda: dict(info(so, to, route)(), ref=ta, var=tb))
            g.prove(ctx_of(ref) == ctx_of(var) and ref.it.configuration == var.it.configuration,
                    'same_context_and_configuration', info(so, to, route))
        if ea is not None:
            g.witness('error_in_both')
            return
        if sa is not None:
            if len(sa.transitions) >= 2:
                g.witness('two_transitions_in_one_step')
            for ms in sa.steps:
                ex = [cm.idx[x] for x in ms.exited_states]
                if any(cm.par[x] >= 0 and cm.kind[cm.par[x]] == cg.ORTH for x in ex):
                    g.witness('orthogonal_exit')
    g.sample({'chart': cm.describe(), 'variants': [[so, to, route] for _, so, to, route in runs][:4], 'events': hist})


# ------------------------------------------------------------------ hash-seed clause (concrete re-execution)
def digest_job(job, level):
    """explore the shard symbolically (guards) and return {path-key: trace digest}"""
    from ..symex import Engine
    out = {}
    for ci, chart in enumerate(expand(job, level)):
        if level.get('max_charts_per_shard') and ci >= level['max_charts_per_shard']:
            break
        g = Engine()

        def fn(g, chart=chart):
            inst = Inst(g, chart, 'id', guards=bool(level.get('guards')))
            tr = [trace_of(inst, inst.init(), None)]
            evs = []
            for k in range(level['K']):
                ev = 'ab'[g.choice('ev%d' % k, 2)]
                evs.append(ev)
                s, e, _ = inst.step(k, ev)
                tr.append(trace_of(inst, s, e))
                if e is not None:
                    break
            key = json.dumps([chart['par'], chart['kind'], chart['init'], chart['tr'], evs,
                              sorted((k, bool(v)) for k, v in g.assignment().items() if k.startswith('g'))])
            out[hashlib.sha1(key.encode()).hexdigest()[:16]] = (hashlib.sha1(repr(tr).encode()).hexdigest()[:16],
                                                                key, repr(tr))
        g.explore(fn)
    return out


def hashseed_worker(argv):
    spec = json.loads(argv[0])
    level, jobs = spec['level'], spec['jobs']
    res = {}
    for job in jobs:
        res.update(digest_job(job, level))
    json.dump(res, sys.stdout)


def post_levels(tier, seed, report):
    """re-execute a small exploration under several PYTHONHASHSEED values and compare per-path digests"""
    from ..runner import ROOT, REPO
    import multiprocessing as mp
    cfg = HASHSEED[tier]
    seeds = list(cfg['seeds']) + ([seed % 1000 + 10] if seed else [])
    viol = []
    total_paths = 0
    for level in cfg['levels']:
        jobs = shards(level)
        if level.get('max_shards'):
            step = max(1, len(jobs) // level['max_shards'])
            jobs = jobs[::step][:level['max_shards']]
        chunks = [jobs[i::16] for i in range(16) if jobs[i::16]]
        results = {}
        procs = []
        for sd in seeds:
            for ci, ch in enumerate(chunks):
                env = dict(os.environ, PYTHONHASHSEED=str(sd))
                p = subprocess.Popen([sys.executable, '-c',
                                      'import sys; from vf.props import c07; c07.hashseed_worker(sys.argv[1:])',
                                      json.dumps({'level': level, 'jobs': ch})], cwd=ROOT, env=env,
                                     stdout=subprocess.PIPE, stderr=subprocess.PIPE, text=True)
                procs.append((sd, ci, p))
            # at most one seed in flight at a time keeps the machine at <= 16 processes
            for sd2, ci, p in procs:
                out, err = p.communicate()
                if p.returncode != 0:
                    report['errors'].append('hashseed worker failed: ' + err[-800:])
                    continue
                results.setdefault(sd2, {}).update(json.loads(out))
            procs = []
        base = results.get(seeds[0], {})
        total_paths += len(base)
        for sd in seeds[1:]:
            other = results.get(sd, {})
            if set(other) != set(base):
                report['errors'].append('hashseed: path sets differ between seeds %s and %s' % (seeds[0], sd))
                continue
            for k, v in base.items():
                if other[k][0] != v[0]:
                    viol.append({'label': 'same_run_under_any_hash_seed', 'seeds': [seeds[0], sd],
                                 'path': json.loads(v[1]), 'trace_a': v[2][:800], 'trace_b': other[k][2][:800],
                                 'level': level['name'], 'guards': level.get('guards', 0)})
                    break
        report['levels'].append({'level': level['name'], 'seeds': seeds, 'paths_per_seed': len(base),
                                 'shards': len(jobs), 'kind': 'concrete re-execution under PYTHONHASHSEED'})
    report['paths'] = total_paths
    return viol


def _concrete_trace(argv):
    """subprocess entry: run one concrete path and print its trace (used by the hash-seed replay)"""
    from ..symex import Engine
    spec = json.loads(argv[0])
    par, kind, init, tr, evs, bits = spec['path']
    chart = {'N': len(par), 'par': par, 'kind': kind, 'init': init, 'tr': tr}
    vals = {k: v for k, v in bits}
    for i, e in enumerate(evs):
        vals['ev%d' % i] = 'ab'.index(e)
    g = Engine(concrete=vals)
    inst = Inst(g, chart, 'id', guards=bool(spec.get('guards')))
    out = [trace_of(inst, inst.init(), None)]
    for k, ev in enumerate(evs):
        s_, e_, _ = inst.step(k, ev)
        out.append(trace_of(inst, s_, e_))
        if e_ is not None:
            break
    print(repr(out))


def replay_special(rec):
    from ..runner import ROOT
    outs = []
    for sd in rec['seeds']:
        env = dict(os.environ, PYTHONHASHSEED=str(sd))
        p = subprocess.run([sys.executable, '-c', 'import sys; from vf.props import c07; c07._concrete_trace(sys.argv[1:])',
                            json.dumps({'path': rec['path'], 'guards': rec.get('guards', 0)})], cwd=ROOT, env=env, capture_output=True, text=True)
        outs.append(p.stdout.strip())
    print('\n'.join(o[:500] for o in outs))
    return len(set(outs)) > 1 and all(outs)
