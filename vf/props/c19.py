"""C19 -- BDD verdicts are sound.

Unit: the real step functions of sismic/bdd/steps.py (matched by behave's own step registry from the
documented step text), the real before_scenario/before_step/after_step of sismic/bdd/environment.py and
sismic.testing, driven with a minimal behave-like context whose execute_steps dispatches through the
registry.  behave's Gherkin file parser and runner are not on this path (its step-text parser is).
Symbolic scalars: the initial value of the chart variable x (unbounded integer, injected through
interpreter_klass), the event parameter, the wait amount (real; the parsed number is replaced by a
symbolic one after matching).  Solver-enumerated: the scenario, a sequence of predefined given/when/then
steps with arguments from pools (existing and missing states, events, variables holding integers, None and 0;
true and false assertions; composite steps whose sub-steps wait or send; a notify in the chart).
Oracle: facts recomputed from a plain second Interpreter fed the same inputs by the harness's own driver;
a 'then' step must be reported passed iff its fact holds (errors count as not passed).
"""
import types

from ..symex import And, Or, Not, Iff, Eq, is_sym

ID = 'C19'
ACTIONS = ['I do nothing', 'I send event go', 'I send event go with n=2', 'I send event nope',
           'I wait 3 seconds', 'I repeat "I send event go" 2 times', 'I send event back', 'I send event end',
           'I reproduce "base"', 'I repeat "I wait 3 seconds" 2 times']
# the scenario that `I reproduce "base"` replays: its given/when steps are re-run with the calling keyword
BASE = [('given', 'I send event go'), ('when', 'I send event back'), ('then', 'state A is active')]
THENS = ['state B is entered', 'state B is not entered', 'state B is exited', 'state A is not exited',
         'state A is active', 'state C is not active', 'state nope is active',
         'event out is fired', 'event out is fired with v=5', 'event out is not fired', 'no event is fired',
         'event alarm is fired', 'event alarm is not fired', 'state D is active',
         'event out is fired\n  | parameter | value |\n  | v | 5 |\n  | w | 16 |',
         'variable x equals 3', 'variable x does not equal 3', 'variable nope equals 1',
         'variable nothing equals None', 'variable nothing does not equal 3', 'variable zero equals 0',
         'variable zero does not equal 0',
         'expression "x == 3" holds', 'expression "x == 3" does not hold',
         'statechart is in a final configuration', 'statechart is not in a final configuration']
LEVELS = {
    'quick': [
        {'name': 'L1-W-W-T', 'shape': 'WWT', 'budget_s': 90},
        {'name': 'L2-two-blocks', 'shape': 'WT-WT', 'budget_s': 60},
        {'name': 'L3-G-W-T', 'shape': 'GWT', 'budget_s': 60},
        {'name': 'L4-G-W-W-T', 'shape': 'GWWT', 'budget_s': 90},
        {'name': 'L5-W-W-T-T', 'shape': 'WWTT', 'budget_s': 90},
    ],
    'thorough': [
        {'name': 'L1-G-W-W-T-T', 'shape': 'GWWTT', 'budget_s': 2400},
        {'name': 'L2-W-T-W-W-T', 'shape': 'WT-WWT', 'budget_s': 1800},
    ],
}
WITNESSES = ['then_passed', 'then_failed', 'then_errored', 'symbolic_variable_assertion', 'symbolic_wait_crosses_timeout',
             'quiescent_when_block', 'second_block_forgets_first', 'parameter_assertion_with_two_events',
             'nested_waits_cross_two_timeouts']
STUBS = ['behave Context -> SimpleNamespace with execute_steps dispatching through behave.step_registry',
         'interpreter_klass injects initial_context {X0: symbolic integer, W: symbolic reals}']
ASSUMPTIONS = ['one fixed chart (states A, B, C, D, final F; variables x, nothing, zero; event out sent with v=x, w=x+1; a notify; chained timeouts after(5) A->C->D)',
               'step texts come from the pools listed in the module (documented spelling); one step uses a Gherkin table']
OUTSIDE = ['behave feature-file parsing, runner, formatters and exit codes (exercised only by concrete end-to-end replays)',
           'user-defined steps / map_action / map_assertion', 'charts other than the fixed one']
YAML = '''statechart:
  name: bdd
  preamble: |
    x = X0
    nothing = None
    zero = 0
  root state:
    name: root
    initial: A
    states:
    - name: A
      transitions:
      - target: B
        event: go
        action: |
          x = x + getattr(event, 'n', 1)
          send('out', v=x, w=x + 1)
      - target: C
        guard: after(5)
    - name: B
      transitions:
      - target: A
        event: back
      - target: F
        event: end
      - target: B
        event: go
        action: |
          x = x + 10
          send('out', v=x, w=x + 1)
          notify('alarm', level=x)
          send('out', v=x + 3, w=x + 11)
    - name: C
      transitions:
      - target: A
        event: back
      - target: D
        guard: after(5)
    - name: D
      transitions:
      - target: A
        event: back
    - name: F
      type: final
'''


def shards(level):
    shape = level['shape']
    if shape in ('WWT', 'GWT', 'GWWT', 'WWTT'):
        return [{'a1': i, 't1': j} for i in range(len(ACTIONS)) for j in range(len(THENS))]
    if shape == 'WT-WT':
        return [{'a1': 1, 't1': 0, 'a3': i} for i in range(len(ACTIONS))]
    if shape == 'GWWTT':
        return [{'g': i, 'a1': j} for i in range(len(ACTIONS)) for j in range(len(ACTIONS))]
    return [{'a1': i, 't1': j} for i in range(len(ACTIONS)) for j in range(len(THENS))]


def canary_job():
    return {'a1': 1, 't1': 0}, {'name': 'canary', 'shape': 'WWT'}


def scenario_for(g, job, level):
    shape = level['shape']
    A, T = len(ACTIONS), len(THENS)
    out = []
    if shape == 'WWT':
        out.append(('when', ACTIONS[job['a1']]))
        a2 = g.choice('a2', A + 1)
        if a2 < A:
            out.append(('when', ACTIONS[a2]))
        out.append(('then', THENS[job['t1']]))
    elif shape == 'GWT':
        out.append(('given', ACTIONS[job['a1']]))
        out.append(('when', ACTIONS[g.choice('a2', A)]))
        out.append(('then', THENS[job['t1']]))
    elif shape == 'GWWT':
        out.append(('given', ACTIONS[g.choice('g0', A)]))
        out.append(('when', ACTIONS[job['a1']]))
        a2 = g.choice('a2', A + 1)
        if a2 < A:
            out.append(('when', ACTIONS[a2]))
        out.append(('then', THENS[job['t1']]))
    elif shape == 'WWTT':
        out.append(('when', ACTIONS[job['a1']]))
        a2 = g.choice('a2', A + 1)
        if a2 < A:
            out.append(('when', ACTIONS[a2]))
        out.append(('then', THENS[job['t1']]))
        out.append(('then', THENS[g.choice('t2', T)]))
    elif shape == 'WT-WT':
        out.append(('when', ACTIONS[job['a1']]))
        out.append(('then', THENS[job['t1']]))
        out.append(('when', ACTIONS[job['a3']]))
        out.append(('then', THENS[g.choice('t3', T)]))
    elif shape == 'GWWTT':
        out.append(('given', ACTIONS[job['g']]))
        out.append(('when', ACTIONS[job['a1']]))
        a2 = g.choice('a2', A + 1)
        if a2 < A:
            out.append(('when', ACTIONS[a2]))
        out.append(('then', THENS[g.choice('t1', T)]))
        t2 = g.choice('t2', T + 1)
        if t2 < T:
            out.append(('then', THENS[t2]))
    else:   # WT-WWT
        out.append(('when', ACTIONS[job['a1']]))
        out.append(('then', THENS[job['t1']]))
        out.append(('when', ACTIONS[g.choice('a3', A)]))
        a4 = g.choice('a4', A + 1)
        if a4 < A:
            out.append(('when', ACTIONS[a4]))
        out.append(('then', THENS[g.choice('t3', T)]))
    return out


class Driver:
    """reference: queues events / advances the clock / runs to quiescence on a plain interpreter"""

    def __init__(self, sc, ctx):
        from sismic.interpreter import Interpreter
        self.it = Interpreter(sc, initial_context=ctx)
        self.block = None
        self.monitoring = False

    def act(self, kind, text, wait):
        it = self.it
        if text.startswith('I reproduce'):
            for k_, t_ in BASE:
                if k_ in ('given', 'when'):
                    self.act(kind, t_, wait)       # replayed with the keyword of the calling step
            return
        reps = 1
        if text.startswith('I repeat'):
            reps = 2
            text = text.split('"')[1]
        wait = list(wait) if isinstance(wait, (list, tuple)) else [wait]
        for _ in range(reps):
            if text == 'I do nothing':
                pass
            elif text.startswith('I send event'):
                parts = text.split()
                params = {}
                if 'with' in parts:
                    k, v = parts[-1].split('=')
                    params[k] = int(v)
                it.queue(parts[3], **params)
            elif text.startswith('I wait'):
                it.clock.time = it.clock.time + wait.pop(0)
            steps = []
            while True:
                s = it.execute_once()
                if s is None:
                    break
                steps.append(s)
            if kind == 'when':
                if not self.monitoring:
                    self.monitoring = True
                    self.block = []
                self.block.extend(steps)

    def fact(self, text):
        it = self.it
        blk = self.block or []
        entered = [x for s in blk for x in s.entered_states]
        exited = [x for s in blk for x in s.exited_states]
        sent = [e for s in blk for e in s.sent_events]
        w = text.split()
        self.monitoring = False
        if text.startswith('state '):
            name = w[1]
            known = name in it.statechart.states
            if text.endswith('is entered'):
                return known and name in entered
            if text.endswith('is not entered'):
                return known and name not in entered
            if text.endswith('is exited'):
                return known and name in exited
            if text.endswith('is not exited'):
                return known and name not in exited
            if text.endswith('is not active'):
                return known and name not in it.configuration
            return known and name in it.configuration
        if text == 'no event is fired':
            return not sent
        if text.startswith('event '):
            outs = [e for e in sent if e.name == w[1]]
            if text.split('\n')[0].endswith('is not fired'):
                return not outs
            if '|' in text:      # Gherkin table: every listed parameter must match on ONE event
                rows = [r.strip().strip('|').split('|') for r in text.split('\n')[2:]]
                want = {r[0].strip(): int(r[1]) for r in rows}
                return Or([And([Eq(getattr(e, k, None), v) if getattr(e, k, None) is not None else False
                                for k, v in want.items()]) for e in outs] + [False])
            if 'with' in w:
                k, v = w[-1].split('=')
                return Or([Eq(getattr(e, k, None), int(v)) if getattr(e, k, None) is not None else False for e in outs] + [False])
            return bool(outs)
        if text.startswith('variable '):
            if w[1] not in it.context:
                return False
            val = it.context[w[1]]      # a defined variable may hold any value, None and 0 included
            import ast
            lit = ast.literal_eval(w[-1])
            same = Eq(val, lit) if (isinstance(lit, int) and val is not None) else (val == lit)
            if 'does not equal' in text:
                return Not(same)
            return same
        if text.startswith('expression '):
            holds = Eq(it.context['x'], 3)
            return Not(holds) if text.endswith('does not hold') else holds
        if text == 'statechart is in a final configuration':
            return it.final
        return not it.final


def harness(g, job, level, canary=False):
    from behave import step_registry
    from behave.parser import parse_steps
    from sismic.bdd import steps as S, environment as ENV    # noqa: F401  (registers the predefined steps)
    from sismic.io import import_from_yaml
    from sismic.interpreter import Interpreter
    if 'sc' not in g.cache:
        g.cache['sc'] = import_from_yaml(YAML)
    sc = g.cache['sc']
    scen = scenario_for(g, job, level)
    x0 = g.int('x0')
    waits = []

    def klass(statechart, **kw):
        return Interpreter(statechart, initial_context={'X0': x0}, **kw)

    class Ctx(types.SimpleNamespace):
        def execute_steps(self, text):
            for st in parse_steps(text):
                run_step(self, st, nested=True)
            return True

    def run_step(ctx, st, nested=False):
        m = step_registry.registry.find_match(st)
        if m is None:
            st.status = 'undefined'
            return st.status
        try:
            ENV.before_step(ctx, st)
        except Exception as e:
            st.status = 'hook-error:' + type(e).__name__
            return st.status
        ctx.table = st.table
        try:
            kwargs = {a.name: a.value for a in m.arguments}
            if 'seconds' in kwargs:
                w = g.real('w%d' % len(waits), 0)      # the parsed number is replaced by a symbolic one
                waits.append(w)
                kwargs['seconds'] = w
            m.func(ctx, **kwargs)
            st.status = 'passed'
        except AssertionError:
            st.status = 'failed'
            if nested:
                raise
        except Exception as e:
            st.status = 'error:' + type(e).__name__
            if nested:
                raise
        ENV.after_step(ctx, st)
        return st.status
    feature = types.SimpleNamespace(scenarios=[types.SimpleNamespace(
        name='base', steps=[types.SimpleNamespace(step_type=k_, name=t_) for k_, t_ in BASE])])
    ctx = Ctx(config=types.SimpleNamespace(userdata={'statechart': sc, 'interpreter_klass': klass,
                                                     'property_statecharts': [], 'debug_on_error': False}),
              table=None, feature=feature)
    ENV.before_scenario(ctx, None)
    ref = Driver(sc, {'X0': x0})
    text = '\n'.join('%s %s' % (k.capitalize(), t) for k, t in scen)
    steps = parse_steps(text)
    info = lambda: {'scenario': text.split('\n'), 'statuses': statuses}   # noqa: E731
    statuses = []
    nblocks = 0
    for (kind, t), st in zip(scen, steps):
        nw = len(waits)
        status = run_step(ctx, st)
        statuses.append(status)
        if kind in ('given', 'when'):
            if 'I wait' in t:
                g.prove(len(waits) == nw + (2 if t.startswith('I repeat') else 1), 'wait_step_matched', info)
                w = waits[nw:]
            else:
                w = 0
            was = ref.it.configuration
            ref.act(kind, t, w)
            g.prove(status == 'passed', 'action_step_runs', info)
            if t.startswith('I wait') and 'A' in was and 'C' in ref.it.configuration:
                g.witness('symbolic_wait_crosses_timeout')
            if t.startswith('I repeat "I wait') and 'A' in was and 'D' in ref.it.configuration:
                g.witness('nested_waits_cross_two_timeouts')
            if kind == 'when' and not ref.block:
                g.witness('quiescent_when_block')
            # the interpreter driven by the steps and the reference are in the same state
            g.prove_all([('steps_leave_interpreter_as_documented', And(ctx.interpreter.configuration == ref.it.configuration,
                                                                       Eq(ctx.interpreter.context['x'], ref.it.context['x']),
                                                                       Eq(ctx.interpreter.time, ref.it.time)), info)])
        else:
            if ref.monitoring is False and ref.block is not None and nblocks >= 1:
                pass
            fact = ref.fact(t)
            nblocks += 1
            passed = status == 'passed'
            if canary:
                passed = not passed
            g.prove(Iff(passed, fact), 'then_step_passed_iff_fact_holds',
                    lambda: dict(info(), step=t, status=status))
            g.witness('then_passed' if status == 'passed' else 'then_failed' if status == 'failed' else 'then_errored')
            if is_sym(fact):
                g.witness('symbolic_variable_assertion')
            if 'with v=' in t and len([e for s in (ref.block or []) for e in s.sent_events]) >= 2:
                g.witness('parameter_assertion_with_two_events')
            if nblocks >= 2:
                g.witness('second_block_forgets_first')
    g.sample({'scenario': text.split('\n'), 'statuses': statuses})


# ------------------------------------------------------------------ end-to-end cross-check (concrete)
def _klass(statechart, **kw):
    from sismic.interpreter import Interpreter
    return Interpreter(statechart, initial_context={'X0': 2}, **kw)


def post_levels(tier, seed, report):
    """every (when, then) pair of the pools as a real feature file through the real execute_bdd / behave
    runner; the per-step status reported by behave must match the oracle.  Concrete (x0 = 2, waits as
    written): this is the replay route of C19, not a solver verdict."""
    import json
    import os
    import tempfile
    from sismic.bdd import execute_bdd
    from sismic.io import import_from_yaml
    sc = import_from_yaml(YAML)
    pairs = [(a, t) for a in ACTIONS for t in THENS]
    if tier == 'quick':
        pairs = pairs[::2]
    viol = []
    with tempfile.TemporaryDirectory(prefix='vf-bdd-') as d:
        feat = os.path.join(d, 'gen.feature')
        out = os.path.join(d, 'out.json')
        with open(feat, 'w') as fh:
            fh.write('Feature: generated\n\n  Scenario: base\n' + ''.join(
                '    %s %s\n' % (k_.capitalize(), t_) for k_, t_ in BASE))
            for i, (a, t) in enumerate(pairs):
                fh.write('\n  Scenario: s%d\n    When %s\n    Then %s\n' % (i, a, t))
        try:
            rc = execute_bdd(sc, [feat], interpreter_klass=_klass, behave_parameters=['-f', 'json', '-o', out, '--no-summary'])
            data = json.load(open(out))
        except BaseException as e:   # behave may call sys.exit
            report['errors'].append('execute_bdd failed: %r' % (e,))
            return viol
    got = {}
    for feature in data:
        for el in feature.get('elements', []):
            steps = el.get('steps', [])
            if len(steps) == 2:
                got[el['name']] = [st.get('result', {}).get('status', 'skipped') for st in steps]
    checked = 0
    for i, (a, t) in enumerate(pairs):
        ref = Driver(sc, {'X0': 2})
        ref.act('when', a, [3, 3])
        fact = bool(ref.fact(t))
        st = got.get('s%d' % i)
        if st is None:
            report['errors'].append('scenario s%d missing from behave output' % i)
            continue
        checked += 1
        if (st[1] == 'passed') != fact or st[0] != 'passed':
            viol.append({'label': 'behave_verdict_matches_fact', 'scenario': ['When ' + a, 'Then ' + t],
                         'behave_status': st, 'fact': fact})
    report['levels'].append({'level': 'E2E-behave', 'scenarios': checked, 'kind': 'concrete end-to-end through execute_bdd',
                             'exit_code_of_behave': rc})
    report['paths'] = checked
    return viol


def replay_special(rec):
    import json
    import os
    import tempfile
    from sismic.bdd import execute_bdd
    from sismic.io import import_from_yaml
    sc = import_from_yaml(YAML)
    with tempfile.TemporaryDirectory(prefix='vf-bdd-') as d:
        feat = os.path.join(d, 'one.feature')
        out = os.path.join(d, 'out.json')
        with open(feat, 'w') as fh:
            fh.write('Feature: replay\n\n  Scenario: base\n' + ''.join(
                '    %s %s\n' % (k_.capitalize(), t_) for k_, t_ in BASE))
            fh.write('\n  Scenario: s\n    %s\n    %s\n' % tuple(rec['scenario']))
        execute_bdd(sc, [feat], interpreter_klass=_klass, behave_parameters=['-f', 'json', '-o', out, '--no-summary'])
        data = json.load(open(out))
    st = [x.get('result', {}).get('status') for x in [el for el in data[0]['elements'] if el['name'] == 's'][0]['steps']]
    print(st, rec['fact'])
    return (st[1] == 'passed') != rec['fact'] or st[0] != 'passed'
