"""C08 -- contracts are checked at the documented points; failures raise the right error.

Unit: Interpreter._evaluate_contract_conditions/_apply_step/execute_once and PythonEvaluator's
evaluate_preconditions/invariants/postconditions (incl. the __old__ snapshots), through the public API.
Every state and transition carries 2 preconditions, 2 postconditions and 2 invariants whose code is a
probe `C(kind, id, j, v, old)`.  Symbolic scalars: one Boolean per condition *occurrence* (the path split
is "which single occurrence fails first": k occurrences -> k+1 paths), the guard bits, and the context
integer v (incremented by every code fragment) through which __old__ is decided for all values.
Solver-enumerated: chart, events (including an empty step).  Oracle: a twin interpreter with
ignore_contract=True (same guard bits) yields the exit/action/entry skeleton of each macro step; the
expected probe sequence is that skeleton expanded with the documented check points; the checked run must
follow it exactly up to the first false occurrence, raise the error class of that kind carrying that
object and that condition, and run nothing afterwards.  A further level uses condition texts that coincide
with entry/exit/action code texts (either used first): the verdict depends on the condition's value only.
"""
import collections

from ..symex import Eq
from .. import chartgen as cg
from ..steplib import Inst

ID = 'C08'
KINDS = [cg.BASIC, cg.COMPOUND, cg.ORTH, cg.FINAL]
LEVELS = {
    'quick': [
        {'name': 'L0-same-text', 'harness': 'same_text', 'budget_s': 20},
        {'name': 'L1-N3-M1-K2', 'N': 3, 'M': 1, 'K': 2, 'cstates': 'all', 'budget_s': 60},
        {'name': 'L2-N3-M2-K1-bco', 'N': 3, 'M': 2, 'K': 1, 'cstates': 'few', 'kinds': 'bco', 'evented': 1, 'budget_s': 90},
        {'name': 'L3-N4-M1-K1-bco', 'N': 4, 'M': 1, 'K': 1, 'cstates': 'some', 'kinds': 'bco', 'budget_s': 90},
    ],
    'thorough': [
        {'name': 'L1-N3-M2-K2', 'N': 3, 'M': 2, 'K': 2, 'cstates': 'all', 'budget_s': 900},
        {'name': 'L2-N4-M2-K1', 'N': 4, 'M': 2, 'K': 1, 'cstates': 'all', 'budget_s': 1800},
        {'name': 'L3-N4-M1-K2', 'N': 4, 'M': 1, 'K': 2, 'cstates': 'all', 'budget_s': 1800},
        {'name': 'L4-N5-M1-K2', 'N': 5, 'M': 1, 'K': 2, 'cstates': 'some', 'budget_s': 1800},
    ],
}
WITNESSES = ['precondition_error', 'postcondition_error', 'invariant_error', 'transition_contract_error',
             'invariant_on_empty_step', 'old_seen_by_state', 'old_seen_by_transition', 'all_conditions_hold',
             'same_text_condition_fails', 'same_text_all_hold']
STUBS = ['conditions are the code strings "C(kind, id, j, v, old)"; C logs and returns a fresh symbolic Boolean '
         'per occurrence', 'every entry/exit/action fragment also runs "v = v + 1" on a symbolic integer v and "L.append(1)" on a list (in-place mutation: __old__ must be a snapshot)']
ASSUMPTIONS = ['well-formed charts (DESIGN §2) over basic/compound/orthogonal/final states', 'events from {a, none}',
               'the order in which the invariants of different active states are checked at the end of a macro '
               'step is not demanded (each state\'s own invariants in declaration order)',
               '__old__ of a transition = variables at its precondition point (after the exits, before its action)']
OUTSIDE = ['charts above the N/M/K bound of the completed level', 'sent()/received() helpers', 'conditions that raise '
           'exceptions (CodeEvaluationError)']
NC = 2   # conditions of each kind on every state and transition


def shards(level):
    if level.get('harness') == 'same_text':
        return [{'order': o} for o in range(2)]
    kinds = KINDS[:3] if level.get('kinds') == 'bco' else KINDS
    return cg.split_shards(cg.skeletons(level['N'], kinds), level['M'], nevents=1, evented_only=bool(level.get('evented')))


def expand(job, level):
    if 'order' in job:
        yield job
        return
    if 'chart' in job:
        yield job['chart']
        return
    yield from cg.charts(job['skel'], level['M'], nevents=1, targets='free', fix=job.get('fix'),
                         evented_only=bool(level.get('evented')))


def canary_job():
    ch = {'N': 3, 'par': [-1, 0, 0], 'kind': [cg.COMPOUND, cg.BASIC, cg.BASIC], 'init': [1, -1, -1],
          'tr': [[1, 2, 1]]}
    return {'chart': ch}, {'name': 'canary', 'N': 3, 'M': 1, 'K': 1, 'cstates': 'all'}


class Box:
    """a plain user object: hashable (by identity) and mutable"""

    def __init__(self):
        self.n = 0


def cond(kind, ident, which, j):
    old = 'None, None' if which == 'pre' else '__old__.v, len(__old__.L) * 1000 + len(__old__.Q) + __old__.BOX.n * 1000000'
    return "C(%r, %d, %r, %d, v, len(L) * 1000 + len(Q) + BOX.n * 1000000, %s)" % (kind, ident, which, j, old)


def hook(kind, ident):
    if kind == 'entry':
        return "P('en', %d)\nv = v + 1\nL.append(1)\nQ.append(1)\nBOX.n += 1" % ident
    if kind == 'exit':
        return "P('ex', %d)\nv = v + 1\nL.append(1)\nQ.append(1)\nBOX.n += 1" % ident
    if kind == 'action':
        return "A(%d)\nv = v + 1\nL.append(1)\nQ.append(1)\nBOX.n += 1" % ident
    return None


def build(g, chart, level):
    key = ('c08',)
    if ('chart', key) in g.cache:
        return g.cache[('chart', key)]
    sc, trs, cm = cg.build(chart, 'id', lambda k, i: hook(k, i) if k != 'guard' else 'G(%d, event)' % i)
    for i in range(cm.n):
        st = sc.state_for(cm.names[i])
        if level.get('cstates') == 'some' and i not in (0, 1, cm.n - 1):
            continue
        if level.get('cstates') == 'few' and i not in (0, cm.n - 1):
            continue
        for j in range(NC):
            st.preconditions.append(cond('s', i, 'pre', j))
            st.postconditions.append(cond('s', i, 'post', j))
            st.invariants.append(cond('s', i, 'inv', j))
    for t, tr in enumerate(trs):
        for j in range(NC):
            tr.preconditions.append(cond('t', t, 'pre', j))
            tr.postconditions.append(cond('t', t, 'post', j))
            tr.invariants.append(cond('t', t, 'inv', j))
    g.cache[('chart', key)] = (sc, trs, cm)
    return sc, trs, cm


def same_text(g, job, level):
    """a contract condition whose text is also used as entry/exit/action code elsewhere in the chart: whether the
    condition holds depends on its value only, whatever was executed (or evaluated) under the same text before"""
    from sismic.exceptions import PreconditionError, PostconditionError, InvariantError
    from sismic.model import Statechart, CompoundState, BasicState, Transition
    from sismic.interpreter import Interpreter
    sc = Statechart('same_text')
    sc.add_state(CompoundState('r', initial='A'), None)
    a = BasicState('A', on_entry='T(1)', on_exit='T(2)')
    b = BasicState('B', on_entry='T(4)')
    sc.add_state(a, 'r')
    sc.add_state(b, 'r')
    tr = Transition('A', 'B', event='go', action='T(3)')
    sc.add_transition(tr)
    tb = Transition('B', 'A', event='back', action='T(1)')
    sc.add_transition(tb)
    if job['order'] == 0:      # code runs before the condition of the same text is first evaluated
        a.invariants.append('T(1)')
        a.postconditions.append('T(2)')
        tr.postconditions.append('T(3)')
        b.preconditions.append('T(3)')
        # expected occurrences: (text, is condition, error class, object)
        plan = [[(1, False, None, None), (1, True, InvariantError, a)],
                [(2, False, None, None), (2, True, PostconditionError, a), (3, False, None, None),
                 (3, True, PostconditionError, tr), (3, True, PreconditionError, b), (4, False, None, None)]]
    else:                      # the condition is evaluated before code of the same text runs
        a.preconditions.append('T(1)')
        tr.preconditions.append('T(3)')
        b.invariants.append('T(1)')
        plan = [[(1, True, PreconditionError, a), (1, False, None, None)],
                [(2, False, None, None), (3, True, PreconditionError, tr), (3, False, None, None), (4, False, None, None),
                 (1, True, InvariantError, b)],
                [(1, False, None, None), (1, True, PreconditionError, a), (1, False, None, None)]]
    cur = {'plan': [], 'pos': 0, 'fail': None, 'extra': 0}

    def T(k):
        pos = cur['pos']
        cur['pos'] += 1
        if pos >= len(cur['plan']) or cur['plan'][pos][0] != k:
            cur['extra'] += 1
            return True
        if not cur['plan'][pos][1]:
            return True          # code position: the value is discarded
        bit = g.bool('t%d_%d' % (cur['step'], pos))
        if not bit and cur['fail'] is None:
            cur['fail'] = pos
            return False
        return True
    it = Interpreter(sc, initial_context={'T': T})
    events = [None, 'go', 'back']
    for step, pl in enumerate(plan):
        cur.update(plan=pl, pos=0, fail=None, extra=0, step=step)
        if events[step]:
            it.queue(events[step])
        try:
            it.execute_once()
            err = None
        except Exception as e:
            err = e
        info = {'order': job['order'], 'step': step, 'calls': cur['pos'], 'planned': len(pl), 'error': type(err).__name__,
                'failing_position': cur['fail']}
        if cur['fail'] is None:
            g.prove(err is None, 'condition_that_holds_raises_nothing', info)
            g.prove(cur['pos'] == len(pl) and cur['extra'] == 0, 'code_and_conditions_run_as_planned', info)
        else:
            _, _, klass, obj = pl[cur['fail']]
            g.prove(type(err) is klass and err.obj is obj, 'failing_condition_raises_its_error', info)
            g.prove(cur['pos'] == cur['fail'] + 1, 'nothing_runs_after_the_failure', info)
            g.witness('same_text_condition_fails')
            return
    g.witness('same_text_all_hold')
    g.sample({'order': job['order']})


def harness(g, chart, level, canary=False):
    if level.get('harness') == 'same_text':
        return same_text(g, chart, level)
    from sismic.exceptions import (PreconditionError, PostconditionError, InvariantError, ContractError,
                                   NonDeterminismError, ConflictingTransitionsError)
    klass = {'pre': PreconditionError, 'post': PostconditionError, 'inv': InvariantError}
    sc, trs, cm = build(g, chart, level)
    cmode = level.get('cstates')
    has_c = lambda i: (i in (0, 1, cm.n - 1)) if cmode == 'some' else (i in (0, cm.n - 1)) if cmode == 'few' else True   # noqa: E731
    v0 = g.int('v0')
    occ = [0]
    seen = []            # (kind, id, which, j, v, old) as observed by the checked run
    failing = []

    def C(kind, ident, which, j, v, n, old, old_n):
        occ[0] += 1
        seen.append((kind, ident, which, j, v, old, n, old_n))
        inst.log.append(('cond', kind, ident, which, j))
        b = g.bool('c%d' % occ[0])
        if not b:
            failing.append((kind, ident, which, j))
            return False
        return True

    def C_twin(*a):
        twin.log.append(('cond-evaluated-while-ignored',) + a[:4])
        return True
    inst = Inst(g, chart, 'id', sc=(sc, trs, cm), extra_context={'C': C, 'v': v0, 'L': [], 'Q': collections.deque(), 'BOX': Box()}, tag='chk')
    twin = Inst(g, chart, 'id', sc=(sc, trs, cm), extra_context={'C': C_twin, 'v': v0, 'L': [], 'Q': collections.deque(), 'BOX': Box()}, tag='ign',
                interp_kwargs={'ignore_contract': True})
    names = cm.names
    hist = []
    info = lambda: {'chart': cm.describe(), 'events': hist, 'log': [list(map(str, e)) for e in inst.log][-40:]}   # noqa: E731
    state = {'v': v0, 'old_s': {}, 'conf': set()}

    def expected_for(skel, conf_after):
        """expand the twin's skeleton with the documented check points; returns list of
        (log entry, expected v at that point, expected __old__.v or None)"""
        out = []
        v = state['v']
        old_s = state['old_s']
        for e in skel:
            if e[0] == 'ex':
                i = cm.idx[e[1]]
                out.append((('ex', e[1]), None, None))
                v = v + 1
                for j in range(NC if has_c(i) else 0):
                    out.append((('cond', 's', i, 'post', j), v, old_s.get(i)))
            elif e[0] == 'act':
                t = e[1]
                told = v
                for j in range(NC):
                    out.append((('cond', 't', t, 'pre', j), v, None))
                for j in range(NC):
                    out.append((('cond', 't', t, 'inv', j), v, told))
                out.append((('act', t), None, None))
                v = v + 1
                for j in range(NC):
                    out.append((('cond', 't', t, 'post', j), v, told))
                for j in range(NC):
                    out.append((('cond', 't', t, 'inv', j), v, told))
            elif e[0] == 'en':
                i = cm.idx[e[1]]
                for j in range(NC if has_c(i) else 0):
                    out.append((('cond', 's', i, 'pre', j), v, None))
                old_s[i] = v
                out.append((('en', e[1]), None, None))
                v = v + 1
        state['v'] = v
        tail = []
        for nm in conf_after:
            i = cm.idx[nm]
            for j in range(NC if has_c(i) else 0):
                tail.append((('cond', 's', i, 'inv', j), v, old_s.get(i)))
        return out, tail

    def one_step(k, ev, first=False):
        if first:
            ts, terr = twin.init(), None
            tlog = list(twin.log)
        else:
            ts, terr, tlog = twin.step(k, ev)
        if terr is not None:
            if isinstance(terr, (NonDeterminismError, ConflictingTransitionsError)):
                return 'stop'
            g.fail('unexpected_exception_in_ignoring_run', lambda: dict(info(), exception=repr(terr)))
        g.prove(not [e for e in tlog if e[0].startswith('cond')], 'ignored_contracts_not_evaluated', info)
        skel = [e for e in tlog if e[0] in ('ex', 'act', 'en')]
        exp, tail = expected_for(skel, twin.it.configuration)
        del seen[:]
        del failing[:]
        if first:
            inst.step_no = -1
            del inst.log[:]
            try:
                cs, cerr = inst.it.execute_once(), None
            except Exception as e:
                cs, cerr = None, e
            clog = list(inst.log)
        else:
            cs, cerr, clog = inst.step(k, ev)
        got = [e for e in clog if e[0] in ('ex', 'act', 'en', 'cond')]
        full = [x[0] for x in exp]
        body, rest = got[:len(full)], got[len(full):]
        if failing:
            kind, ident, which, j = failing[0]
            where = len(got)
            # everything up to and including the failing probe follows the expected sequence ...
            ok_prefix = (got[:min(where, len(full))] == full[:min(where, len(full))])
            if where > len(full):
                ok_prefix = ok_prefix and _tail_ok(rest, tail, partial=True)
            g.prove(ok_prefix and got[-1] == ('cond', kind, ident, which, j), 'checked_at_documented_points_until_failure',
                    lambda: dict(info(), expected=[str(x) for x in full + [t[0] for t in tail]]))
            obj = sc.state_for(names[ident]) if kind == 's' else trs[ident]
            exp_klass = klass[which]
            if canary:
                exp_klass = klass['pre']
            g.prove(isinstance(cerr, exp_klass) and type(cerr) is exp_klass, 'right_error_class',
                    lambda: dict(info(), error=repr(cerr), failing=[kind, ident, which, j]))
            g.prove(cerr.obj is obj and cerr.condition == cond(kind, ident, which, j), 'error_carries_object_and_condition',
                    lambda: dict(info(), obj=repr(getattr(cerr, 'obj', None)), condition=getattr(cerr, 'condition', None)))
            g.witness({'pre': 'precondition_error', 'post': 'postcondition_error', 'inv': 'invariant_error'}[which])
            if kind == 't':
                g.witness('transition_contract_error')
            check_values(got, exp, tail)
            return 'stop'
        g.prove(cerr is None, 'no_error_when_all_conditions_hold', lambda: dict(info(), error=repr(cerr)))
        g.prove(body == full and _tail_ok(rest, tail, partial=False), 'checked_at_documented_points',
                lambda: dict(info(), expected=[str(x) for x in full + [t[0] for t in tail]], got=[str(x) for x in got]))
        check_values(got, exp, tail)
        if ts is None and tail:
            g.witness('invariant_on_empty_step')
        g.prove((cs is None) == (ts is None), 'same_step_as_ignoring_run', info)
        return 'go'

    def check_values(got, exp, tail):
        """v and __old__.v seen by each probe (decided by the solver for every v0)"""
        conds = []
        lookup = {}
        for e, v, old in exp + tail:
            if e[0] == 'cond':
                lookup.setdefault(e, []).append((v, old))
        cnt = {}
        idx = 0
        for e in got:
            if e[0] != 'cond':
                continue
            k = cnt.get(e, 0)
            cnt[e] = k + 1
            sv = seen[idx]
            idx += 1
            if e in lookup and k < len(lookup[e]):
                v, old = lookup[e][k]
                conds.append(('probe_sees_current_v', Eq(sv[4], v), info))
                conds.append(('probe_sees_current_list', Eq(v, v0 + sv[6] % 1000) if _all3(sv[6]) else False, info))
                if e[3] != 'pre':
                    if old is None:
                        conds.append(('old_available', False, info))
                    else:
                        conds.append(('old_is_value_at_entry_or_transition_start', Eq(sv[5], old),
                                      lambda e=e: dict(info(), probe=str(e))))
                        conds.append(('old_is_a_snapshot_not_an_alias',
                                      Eq(old, v0 + sv[7] % 1000) if _all3(sv[7]) else False,
                                      lambda e=e: dict(info(), probe=str(e), old_list_and_deque=sv[7])))
                        g.witness('old_seen_by_state' if e[1] == 's' else 'old_seen_by_transition')
        if conds:
            g.prove_all(conds)

    r = one_step(-1, None, first=True)
    if r == 'go':
        for k in range(level['K']):
            ev = [None, 'a'][g.choice('ev%d' % k, 2)]
            hist.append(ev)
            r = one_step(k, ev)
            if r != 'go':
                break
    if r == 'go':
        g.witness('all_conditions_hold')
    g.sample({'chart': cm.describe(), 'events': hist, 'failing': failing[:1]})


def _all3(code):
    """the probe packs len(list), len(deque) and box.n into one number: all three must agree"""
    return code % 1000 == (code // 1000) % 1000 == code // 1000000


def _tail_ok(rest, tail, partial):
    """end-of-step invariants: per state in declaration order, states in any order"""
    want = {}
    for e, _, _ in tail:
        want.setdefault(e[2], []).append(e)
    got = {}
    for e in rest:
        if e[0] != 'cond' or e[1] != 's' or e[3] != 'inv':
            return False
        got.setdefault(e[2], []).append(e)
    for i, lst in got.items():
        if i not in want:
            return False
        if partial:
            if lst != want[i][:len(lst)]:
                return False
        elif lst != want[i]:
            return False
    if not partial and set(got) != set(want):
        return False
    # a state's invariants are contiguous
    order = [e[2] for e in rest]
    dedup = [x for n, x in enumerate(order) if n == 0 or order[n - 1] != x]
    return len(dedup) == len(set(dedup))
