"""C06 -- history states restore exactly what was active.

Unit: Interpreter.execute_once (_apply_step's memory bookkeeping, _create_stabilization_step) through the
public API.  Solver-enumerated: every well-formed chart with at least one history state and at
least one transition targeting it (exhaustive up to N states), plus deeper template skeletons
(nested compound under deep history, orthogonal content under deep history, history under a
region's compound, shallow and deep side by side) whose transitions are enumerated by the solver;
event histories of length K.  Symbolic scalars: guard bits (template levels).
Oracle: memory reference computed from the returned micro steps only: whenever the parent p of a
history state h appears in an exit list, ref[h] := configuration before that micro step restricted to
children(p) (shallow) / descendants(p) (deep); when h is entered the next micro step must exit h and
enter exactly ref[h] (the declared memory if p was never exited), parents before children, and the
macro step must end in a legal configuration containing what was restored.
"""
from .. import chartgen as cg
from ..steplib import Inst, micro_summary

ID = 'C06'
KINDS = [cg.BASIC, cg.COMPOUND, cg.ORTH, cg.SH, cg.DH]
B, C, O, F, S, D = cg.BASIC, cg.COMPOUND, cg.ORTH, cg.FINAL, cg.SH, cg.DH
TEMPLATES = {
    # root{P{A{X,Y},H}, Z}
    'T1s': {'N': 7, 'par': [-1, 0, 1, 2, 2, 1, 0], 'kind': [C, C, C, B, B, S, B]},
    'T1d': {'N': 7, 'par': [-1, 0, 1, 2, 2, 1, 0], 'kind': [C, C, C, B, B, D, B]},
    # root{P{Q||{R1{a,b}, R2{c,d}}, H*}, Z}
    'T2d': {'N': 10, 'par': [-1, 0, 1, 2, 3, 3, 2, 6, 6, 1], 'kind': [C, C, O, C, B, B, C, B, B, D]},
    # root||{R1{A,B,H}, R2{C1,C2}}
    'T3s': {'N': 7, 'par': [-1, 0, 1, 1, 1, 0, 5], 'kind': [O, C, B, B, S, C, B]},
    # root{Z, O||{P{a,b,H*}, R2{x,y}}}: the deep history's parent is a region that is exited together with its sibling
    'T5d': {'N': 10, 'par': [-1, 0, 0, 2, 3, 3, 3, 2, 7, 7], 'kind': [C, B, O, C, B, B, D, C, B, B]},
    # root{Z, P{A, F(final), H}}: a final state next to the history state is remembered like any other child
    'T6s': {'N': 6, 'par': [-1, 0, 0, 2, 2, 2], 'kind': [C, B, C, B, F, S]},
    'T6d': {'N': 6, 'par': [-1, 0, 0, 2, 2, 2], 'kind': [C, B, C, B, F, D]},
    # root{P{A{X,Y},Hs,Hd}, Z}: shallow and deep history side by side
    'T4': {'N': 8, 'par': [-1, 0, 1, 2, 2, 1, 1, 0], 'kind': [C, C, C, B, B, S, D, B]},
}
LEVELS = {
    'quick': [
        {'name': 'L1-N5-M2-K3', 'N': 5, 'M': 2, 'K': 3, 'guards': 0, 'namings': ['rev'], 'budget_s': 100},
        {'name': 'L2-T1T4-M2-K3', 'templates': ['T1s', 'T1d', 'T4'], 'M': 2, 'K': 3, 'guards': 0, 'namings': ['rev', 'mix'], 'budget_s': 90},
        {'name': 'L3-T3-M2-K2', 'templates': ['T3s'], 'M': 2, 'K': 2, 'guards': 1, 'budget_s': 60},
        {'name': 'L5-T6-M2-K3', 'templates': ['T6s', 'T6d'], 'M': 2, 'K': 3, 'guards': 0, 'namings': ['id'], 'budget_s': 40},
        {'name': 'L4-T5d-M2-K3', 'templates': ['T5d'], 'M': 2, 'K': 3, 'guards': 0, 'namings': ['id', 'rev'], 'nevents': 1,
         'budget_s': 100},
    ],
    'thorough': [
        {'name': 'L1-N5-M2-K4', 'N': 5, 'M': 2, 'K': 4, 'guards': 1, 'budget_s': 900},
        {'name': 'L2-T1-M3-K4', 'templates': ['T1s', 'T1d'], 'M': 3, 'K': 4, 'guards': 0, 'namings': ['id', 'rev', 'mix'], 'budget_s': 1200},
        {'name': 'L3-T3T4-M2-K4', 'templates': ['T3s', 'T4'], 'M': 2, 'K': 4, 'guards': 1, 'budget_s': 900},
        {'name': 'L4-T2-M2-K3', 'templates': ['T2d'], 'M': 2, 'K': 3, 'guards': 0, 'namings': ['rev'], 'budget_s': 900},
    ],
}
WITNESSES = ['default_memory_entered', 'shallow_restored_non_default', 'deep_restored_nested',
             'restored_twice', 'default_entry_below_shallow']
STUBS = ['entry/exit/action probes log only; guards symbolic where the level enables them']
ASSUMPTIONS = ['well-formed charts (DESIGN §2): history entered from outside its parent (W7)',
               'events from {a, b}', 'steps raising NonDeterminism/Conflict errors end the path (C04)']
OUTSIDE = ['charts above the bounds of the completed level', 'templates are hand-picked skeletons (named in '
           'the evidence); their transitions are solver-enumerated']


def shards(level):
    if 'templates' in level:
        out = []
        for name in level['templates']:
            sk = dict(TEMPLATES[name])
            out.extend(dict(s, template=name) for s in cg.split_shards([sk], level['M'], nevents=level.get('nevents', 2)))
        return out
    return cg.split_shards(cg.skeletons(level['N'], KINDS, require_history=True), level['M'])


def expand(job, level):
    if 'chart' in job:
        yield job['chart']
        return
    yield from cg.charts(job['skel'], level['M'], nevents=level.get('nevents', 2), targets='free', fix=job.get('fix'),
                         hist_target=True)


def canary_job():
    ch = {'N': 5, 'par': [-1, 0, 1, 1, 1], 'kind': [C, C, B, B, S], 'init': [1, 2, -1, -1, 2],
          'tr': [[0, 4, 2], [2, 3, 1]]}
    return {'chart': ch}, {'name': 'canary', 'N': 5, 'M': 2, 'K': 2, 'guards': 0}


def harness(g, chart, level, canary=False):
    from sismic.exceptions import NonDeterminismError, ConflictingTransitionsError
    namings = level.get('namings', ['id'])
    naming = namings[g.choice('naming', len(namings))]
    inst = Inst(g, chart, naming, guards=bool(level.get('guards')))
    cm, it = inst.cm, inst.it
    names = cm.names
    hs = [i for i in range(cm.n) if cm.kind[i] >= cg.SH]
    ref = {}            # history index -> set of remembered state indices
    restored = {h: 0 for h in hs}
    hist = []
    cur = {}
    info = lambda: {'chart': cm.describe(), 'events': hist, 'step': micro_summary(inst, cur.get('st')),   # noqa: E731
                    'ref': {names[h]: sorted(names[x] for x in v) for h, v in ref.items()}}

    def process(st):
        conf = cur['conf']
        steps = st.steps
        for mi, ms in enumerate(steps):
            ex = [cm.idx[x] for x in ms.exited_states]
            en = [cm.idx[x] for x in ms.entered_states]
            before = set(conf)
            for h in hs:
                p = cm.par[h]
                if p in ex:
                    if cm.kind[h] == cg.SH:
                        ref[h] = {c for c in cm.children[p] if c in before}
                    else:
                        ref[h] = {c for c in cm.descendants(p) if c in before}
            for h in hs:
                if h in en:
                    nxt = steps[mi + 1] if mi + 1 < len(steps) else None
                    g.prove(nxt is not None and nxt.transition is None
                            and [cm.idx[x] for x in nxt.exited_states] == [h],
                            'history_state_left_in_next_micro_step', info)
                    got = [cm.idx[x] for x in nxt.entered_states]
                    exp = ref.get(h)
                    if exp is None:
                        exp = {cm.init[h]}
                        g.witness('default_memory_entered')
                    if canary and cm.kind[h] == cg.SH:
                        exp = {cm.init[h]}
                    g.prove(set(got) == exp and len(got) == len(exp), 'restores_exactly_what_was_active',
                            lambda: dict(info(), history=names[h], restored=[names[x] for x in got],
                                         expected=sorted(names[x] for x in exp)))
                    ok = all(not cm.is_anc(got[j], got[i]) for i in range(len(got)) for j in range(i + 1, len(got)))
                    g.prove(ok, 'parents_before_children', info)
                    restored[h] += 1
                    cur.setdefault('must_be_active', set()).update(exp)
                    if cm.kind[h] == cg.SH and exp != {cm.init[h]}:
                        g.witness('shallow_restored_non_default')
                    if cm.kind[h] == cg.SH and any(cm.kind[x] in (cg.COMPOUND, cg.ORTH) for x in exp):
                        g.witness('default_entry_below_shallow')
                    if cm.kind[h] == cg.DH and any(cm.depth[x] > cm.depth[h] for x in exp):
                        g.witness('deep_restored_nested')
                    if restored[h] >= 2:
                        g.witness('restored_twice')
            for i in ex:
                conf.discard(i)
            for i in en:
                conf.add(i)
    cur['conf'] = set()
    st = inst.init()
    cur['st'] = st
    process(st)
    for k in range(level['K']):
        ev = 'ab'[g.choice('ev%d' % k, 2)]
        hist.append(ev)
        st, err, log = inst.step(k, ev)
        cur['st'] = st
        if err is not None:
            if isinstance(err, (NonDeterminismError, ConflictingTransitionsError)):
                return
            g.fail('unexpected_exception', lambda: dict(info(), exception=repr(err)))
        if st is None:
            continue
        cur['must_be_active'] = set()
        process(st)
        conf_names = it.configuration
        if cur['must_be_active']:
            # what was restored is still there when the macro step ends (unless a later transition of the
            # same macro step left it) and default entry went on below a shallowly restored state
            later_exits = set()
            seen = False
            for ms in st.steps:
                if seen:
                    later_exits.update(cm.idx[x] for x in ms.exited_states)
                if any(cm.idx[x] in hs for x in ms.exited_states):
                    seen = True
            need = {x for x in cur['must_be_active'] if x not in later_exits}
            g.prove(need <= {cm.idx[c] for c in conf_names} and cm.legal(conf_names) is None,
                    'restored_configuration_complete_and_legal',
                    lambda: dict(info(), conf=conf_names, reason=cm.legal(conf_names)))
        g.prove(sorted(names[i] for i in cur['conf']) == sorted(conf_names), 'configuration_is_fold_of_trace', info)
    g.sample({'chart': cm.describe(), 'naming': naming, 'events': hist, 'restored': {names[h]: n for h, n in restored.items()}})
