"""C14 -- SimulatedClock is monotonic and faithful; SynchronizedClock follows the interpreter.

Unit: the real sismic.clock.SimulatedClock / SynchronizedClock with the wall-clock source
(`time()` as imported by sismic/clock/clock.py) replaced by a scripted source.  Symbolic
scalars (exact reals, decided for all values): every real-time increment d>=0, every speed
s>=0, every assigned time value v.  Solver-enumerated: the kind of each operation of a
history of length K.  Reference: an incrementally accumulated reading (ref += speed*d while
started) -- a different formulation from the implementation's base/elapsed arithmetic; their
equality is a nonlinear real-arithmetic obligation discharged by z3 on every path.  SynchronizedClock: a
follower (and a follower of a follower) is read between steps, after queue(), after each step and by a listener
at every meta-event during the step.
"""
import itertools

from ..symex import And, Implies, Not, Or, Eq, Ite, Infeasible

ID = 'C14'
OPS = ('start', 'stop', 'speed', 'set', 'read')

LEVELS = {
    'quick': [
        {'name': 'L1-between-K6', 'harness': 'hist', 'mode': 'between', 'K': 6, 'budget_s': 150},
        {'name': 'L1-within-K5', 'harness': 'hist', 'mode': 'within', 'K': 5, 'budget_s': 100},
        {'name': 'L1-inductive', 'harness': 'ind', 'budget_s': 60},
        {'name': 'L1-sync-K4', 'harness': 'sync', 'K': 4, 'budget_s': 90},
    ],
    'thorough': [
        {'name': 'L2-between-K7', 'harness': 'hist', 'mode': 'between', 'K': 7, 'budget_s': 1500},
        {'name': 'L2-within-K6', 'harness': 'hist', 'mode': 'within', 'K': 6, 'budget_s': 900},
        {'name': 'L2-sync-K6', 'harness': 'sync', 'K': 6, 'budget_s': 900},
    ],
}
WITNESSES = ['set_below_rejected', 'set_accepted', 'advance_while_started', 'still_while_stopped',
             'speed_changed_while_started', 'inductive_step', 'sync_after_step', 'sync_read_during_step']
STUBS = ['time() in sismic.clock.clock (and time.time) -> scripted source advanced only by the harness']
ASSUMPTIONS = ['real-time increments >= 0', 'speeds >= 0',
               'time values are exact reals (IEEE-754 rounding outside the claim)',
               'mode "between": real time advances only between clock operations (all clauses); '
               'mode "within": it may also advance between the time() calls inside one operation '
               '(monotonicity clause only)']
OUTSIDE = ['UtcClock', 'float rounding', 'histories longer than K operations (the inductive step covers '
           'them only under the representation invariant _base<=now, _speed>=0)']
EXPLANATION = __doc__


def shards(level):
    if level['harness'] == 'hist':
        k = min(2, level['K'])
        return [{'prefix': list(p)} for p in itertools.product(range(len(OPS)), repeat=k)]
    if level['harness'] == 'ind':
        return [{'op': o, 'play': p} for o in range(len(OPS)) for p in (0, 1)]
    return [{'sync': 1, 'q': [q0, q1], 'm': [m0, m1]} for q0 in range(3) for m0 in range(2) for q1 in range(3) for m1 in range(2)]


def canary_job():
    return {'prefix': [0, 2, 4]}, {'name': 'canary', 'harness': 'hist', 'mode': 'between', 'K': 3}


class Source:
    def __init__(self, g, mode):
        self.g, self.mode, self.now, self.n = g, mode, 0, 0

    def __call__(self):
        if self.mode == 'within':
            self.n += 1
            self.now = self.now + self.g.real('w%d' % self.n, 0)
        return self.now

    def advance(self, d):
        self.now = self.now + d


def install(src):
    import time as _t
    import sismic.clock.clock as cm
    cm.time = src
    return cm


def harness(g, job, level, canary=False):
    h = level['harness']
    if h == 'hist':
        return hist(g, job, level, canary)
    if h == 'ind':
        return inductive(g, job, level)
    return sync(g, job, level)


def hist(g, job, level, canary):
    src = Source(g, level['mode'])
    cm = install(src)
    between = level['mode'] == 'between'
    c = cm.SimulatedClock()
    ref, playing, speed = 0, False, 1      # reference model
    last = c.time
    g.prove(Eq(last, 0), 'initial_zero')
    log = []
    for k in range(level['K']):
        d = g.real('d%d' % k, 0)
        src.advance(d)
        if playing:
            ref = ref + (d if canary else speed * d)
            g.witness('advance_while_started', d > 0)
        else:
            g.witness('still_while_stopped', d > 0)
        op = job['prefix'][k] if k < len(job['prefix']) else g.choice('op%d' % k, len(OPS))
        name = OPS[op]
        log.append(name)
        if between:
            before = c.time
            g.prove(Eq(before, ref), 'faithful_before_op', lambda: {'ops': log, 'k': k})
        if name == 'start':
            c.start()
            playing = True
        elif name == 'stop':
            c.stop()
            playing = False
        elif name == 'speed':
            s = g.real('s%d' % k, 0)
            c.speed = s
            g.prove(Eq(c.speed, s), 'speed_reads_back', lambda: {'ops': log})
            if playing:
                g.witness('speed_changed_while_started')
            speed = s
        elif name == 'set':
            v = g.real('v%d' % k)
            try:
                c.time = v
                raised = False
            except ValueError:
                raised = True
            if between:
                if raised:
                    g.prove(v < ref, 'rejected_only_if_below', lambda: {'ops': log})
                    g.witness('set_below_rejected')
                else:
                    g.prove(v >= ref, 'accepted_only_if_not_below', lambda: {'ops': log})
                    g.witness('set_accepted')
                    ref = v
            else:
                if not raised:
                    g.prove(v >= last, 'accepted_value_not_below_last_reading', lambda: {'ops': log})
                    g.witness('set_accepted')
                else:
                    g.witness('set_below_rejected')
        now = c.time
        if between:
            g.prove_all([('faithful_after_op', Eq(now, ref), lambda: {'ops': log, 'k': k}),
                         ('monotonic', now >= last, lambda: {'ops': log, 'k': k})])
        else:
            g.prove(now >= last, 'monotonic', lambda: {'ops': log, 'k': k})
        last = now
    g.sample({'ops': log})


def inductive(g, job, level):
    """one operation from an arbitrary representation state (private fields; skipped if renamed)"""
    src = Source(g, 'between')
    cm = install(src)
    c = cm.SimulatedClock()
    for f in ('_base', '_time', '_play', '_speed'):
        if not hasattr(c, f):
            g.witness('inductive_step')      # representation changed: step skipped, reported
            g.sample({'skipped': 'private field %s absent' % f})
            return
    now0 = g.real('now0')
    B = g.real('B')
    T = g.real('T')
    S = g.real('S', 0)
    g.assume(B <= now0)
    play = bool(job['play'])
    src.now = now0
    c._base, c._time, c._play, c._speed = B, T, play, S
    r0 = c.time
    name = OPS[job['op']]
    exp_play, exp_speed, exp_r = play, S, r0
    if name == 'start':
        c.start()
        exp_play = True
    elif name == 'stop':
        c.stop()
        exp_play = False
    elif name == 'speed':
        s = g.real('s', 0)
        c.speed = s
        exp_speed = s
    elif name == 'set':
        v = g.real('v')
        try:
            c.time = v
            g.prove(v >= r0, 'accepted_only_if_not_below')
            exp_r = v
        except ValueError:
            g.prove(v < r0, 'rejected_only_if_below')
    r1 = c.time
    g.prove(Eq(r1, exp_r), 'op_effect_on_reading', {'op': name, 'play': play})
    d = g.real('d', 0)
    src.advance(d)
    r2 = c.time
    g.prove_all([('advance_is_speed_times_elapsed', Eq(r2, r1 + (exp_speed * d if exp_play else 0)),
                  {'op': name, 'play': play}),
                 ('invariant_base_le_now', c._base <= src.now, {'op': name}),
                 ('invariant_speed_nonneg', c._speed >= 0, {'op': name}),
                 ('monotonic', And(r1 >= r0, r2 >= r1), {'op': name})])
    g.witness('inductive_step')
    g.sample({'op': name, 'play': play})


def sync(g, job, level):
    src = Source(g, 'between')
    cm = install(src)
    from sismic.model import Statechart, CompoundState, BasicState, Transition
    from sismic.interpreter import Interpreter
    sc = Statechart('s')
    sc.add_state(CompoundState('r', initial='A'), None)
    sc.add_state(BasicState('A'), 'r')
    sc.add_state(BasicState('B'), 'r')
    sc.add_transition(Transition('A', 'B', event='e'))
    sc.add_transition(Transition('B', 'A', event='e'))
    it = Interpreter(sc)
    sy = cm.SynchronizedClock(it)
    g.prove(Eq(sy.time, it.time), 'sync_before_first_step')
    # a chain: `mid` runs on a clock synchronized with `it`; `sy2` follows `mid` (not the root of the chain)
    mid = Interpreter(sc, clock=cm.SynchronizedClock(it))
    sy2 = cm.SynchronizedClock(mid)
    # "always": also while a step is under way -- an observer of the followed interpreter reads the follower at every
    # meta-event, `step started` (which announces the new step time) included
    seen = []

    def observer(event):
        seen.append((event.name, sy.time, it.time, getattr(event, 'time', None) if event.name == 'step started' else None))
    it.attach(observer)
    for k in range(level['K']):
        a = g.real('a%d' % k, 0)
        it.clock.time = it.clock.time + a
        expected = it.clock.time
        before = it.time
        g.prove(Eq(sy.time, before), 'sync_unchanged_between_steps', {'k': k})
        q = job['q'][k] if k < len(job.get('q', [])) else g.choice('q%d' % k, 3)
        if q == 1:
            it.queue('e')
        elif q == 2:
            from sismic.model import Event
            it.queue(Event('e', delay=g.real('qd%d' % k, 0)))
        g.prove_all([('sync_unchanged_by_queue', Eq(sy.time, before), {'k': k, 'q': q}),
                     ('interpreter_time_unchanged_by_queue', Eq(it.time, before), {'k': k, 'q': q})])
        del seen[:]
        step = it.execute_once()
        conds = [('sync_equals_interpreter_time', Eq(sy.time, it.time), {'k': k}),
                 ('interpreter_time_is_sampled_clock', Eq(it.time, expected), {'k': k})]
        if step is not None:
            conds.append(('macrostep_time', Eq(step.time, expected), {'k': k}))
        for nm, st_, it_, ann in seen:
            conds.append(('sync_equals_step_time_during_the_step', Eq(st_, expected), {'k': k, 'meta_event': nm}))
            if ann is not None:
                conds.append(('step_started_announces_the_time_the_follower_shows', Eq(ann, st_), {'k': k}))
        g.prove_all(conds)
        g.witness('sync_after_step')
        g.witness('sync_read_during_step', bool(seen))
        # the follower of `mid` shows mid's last step time, also while the root has already moved on
        g.prove(Eq(sy2.time, mid.time), 'chained_sync_follows_its_own_interpreter', {'k': k, 'phase': 'root stepped'})
        if (job['m'][k] if k < len(job.get('m', [])) else g.choice('m%d' % k, 2)):
            mid.execute_once()
            g.prove_all([('chained_sync_follows_its_own_interpreter', Eq(sy2.time, mid.time), {'k': k, 'phase': 'mid stepped'}),
                         ('mid_time_is_root_step_time', Eq(mid.time, it.time), {'k': k})])
