"""C18 -- a pickled or deep-copied interpreter continues exactly like the original.

Unit: pickle.dumps/loads and copy.deepcopy of a real Interpreter (with PythonEvaluator.__getstate__/
__setstate__, FrozenContext, Event.__getstate__) followed by execute_once, through the public API.
Three interpreters run in lock step with shared symbolic inputs: `plain` (never snapshotted), `orig`
(snapshotted at a solver-chosen macro-step boundary k with a solver-chosen method) and `rest` (the
restored snapshot).  Symbolic scalars: guard bits, the context integer x and the increment D (contracts
compare x with __old__.x, so contract verdicts are decided for all values), the delay of every sent event
and the clock advances (reals) -- equal due times of pending events are found by the solver.
Solver-enumerated: chart (history states, contracts with/without invariants), snapshot point (before or after
the client moved the clock) and method, events (external ones with symbolic delays at one level).  Obligations: orig == plain at every step (the snapshot does not disturb), rest == orig from k on
(macro steps incl. event classes, context, configuration, contract errors).
"""
import builtins
import copy as _copy
import pickle

from ..symex import Eq, And, is_sym
from .. import chartgen as cg
from .c09 import same_values

ID = 'C18'
ALL = [cg.BASIC, cg.COMPOUND, cg.ORTH, cg.FINAL, cg.SH, cg.DH]
LEVELS = {
    'quick': [
        {'name': 'L1-N3-M2-K2-reps4', 'N': 3, 'M': 2, 'K': 2, 'reps': 4, 'qdelay': 1, 'budget_s': 130},
        {'name': 'L2-N4-M2-K2-reps1', 'N': 4, 'M': 2, 'K': 2, 'reps': 1, 'Dpos': 1, 'budget_s': 90},
        {'name': 'L3-T1hist-M2-K3', 'templates': ['T1s', 'T1d'], 'M': 2, 'K': 3, 'hist': 1, 'guards': 0,
         'reps': 4, 'Dpos': 1, 'budget_s': 80},
        {'name': 'L5-fixed-history-from-inside-K4', 'fixed': 1, 'K': 4, 'guards': 0, 'Dpos': 1, 'budget_s': 60},
        {'name': 'L4-T1hist-fromInside-M2-K3', 'templates': ['T1s', 'T1d'], 'M': 2, 'K': 3, 'hist': 1, 'guards': 0,
         'reps': 3, 'Dpos': 1, 'relax_w7': 1, 'budget_s': 80},
    ],
    'thorough': [
        {'name': 'L1-N3-M2-K3', 'N': 3, 'M': 2, 'K': 3, 'reps': 12, 'budget_s': 1800},
        {'name': 'L2-N4-M2-K2', 'N': 4, 'M': 2, 'K': 2, 'reps': 6, 'budget_s': 2400},
        {'name': 'L3-T1hist-M2-K4', 'templates': ['T1s', 'T1d'], 'M': 2, 'K': 4, 'hist': 1, 'guards': 0, 'reps': 40,
         'Dpos': 1, 'budget_s': 1800},
        {'name': 'L4-N5hist-M2-K3', 'N': 5, 'M': 2, 'K': 3, 'hist': 1, 'guards': 0, 'reps': 2, 'Dpos': 1, 'budget_s': 1800},
    ],
}
WITNESSES = ['snapshot_by_pickle', 'snapshot_by_deepcopy', 'old_used_after_restore', 'postcondition_only_state_left_after_restore',
             'delayed_internal_event_pending_at_snapshot', 'equal_due_times_after_restore', 'history_restored_after_restore',
             'contract_error_in_all_three', 'snapshot_after_clock_moved']
STUBS = ['probes are reached through builtins (VF.G/VF.A/VF.DL) so that the interpreter context stays picklable',
         'proxies pickle through z3 serialize/deserialize']
ASSUMPTIONS = ['well-formed charts (DESIGN §2); the relax_w7 level also lets a history state be targeted from inside its parent', 'events a / none, clock advances >= 0, delays >= 0 (exact reals)',
               'snapshots at macro-step boundaries only', 'a bounded number of transition completions per skeleton ("reps", spread evenly); levels with Dpos assume D >= 0 (no contract failure)']
OUTSIDE = ['charts above the level bounds', 'listeners / bound property statecharts at snapshot time',
           'evaluators other than PythonEvaluator', 'pickle protocol other than the default']


class Hub:
    def __init__(self):
        self.reset(None)

    def reset(self, g):
        self.g = g
        self.step = -1
        self.log = {}
        self.ndl = {}
        self.guards = True

    def G(self, who, t, event):
        if not self.guards:
            return True
        return self.g.bool('g%d_%d' % (t, self.step))

    def A(self, who, t):
        self.log.setdefault(who, []).append(('act', t))

    def P(self, who, what, i):
        self.log.setdefault(who, []).append((what, i))

    def JOB(self, who, event):
        # action code consumes a mutable event parameter in place
        jobs = getattr(event, 'jobs', None) if event is not None else None
        if jobs is not None:
            self.log.setdefault(who, []).append(('jobs', list(jobs)))
            if jobs:
                jobs.pop(0)

    def DL(self, who):
        n = self.ndl.get(who, 0)
        self.ndl[who] = n + 1
        return self.g.real('dl%d' % n, 0)


HUB = Hub()
builtins.VF = HUB


# root{Z, P{A, B, H}} with A -a-> B, P -b-> Z, Z -a-> P, A -b-> H (H entered from inside its parent while P is active)
FIXED = [{'N': 6, 'par': [-1, 0, 0, 2, 2, 2], 'kind': [cg.COMPOUND, cg.BASIC, cg.COMPOUND, cg.BASIC, cg.BASIC, kh],
          'init': [2, -1, 3, -1, -1, 3], 'tr': [[3, 4, 1], [2, 1, 2], [1, 2, 1], [3, 5, 2]]} for kh in (cg.SH, cg.DH)]


def shards(level):
    if level.get('fixed'):
        return [{'chart': c, 'snap': k, 'method': m} for c in FIXED for k in range(level['K']) for m in (0, 1)]
    if level.get('reps') and 'templates' not in level:
        return [{'skel': sk} for sk in cg.skeletons(level['N'], ALL, require_history=bool(level.get('hist')))]
    if 'templates' in level:
        from .c06 import TEMPLATES
        out = []
        for name in level['templates']:
            out.extend(dict(sh, template=name) for sh in
                       cg.split_shards([dict(TEMPLATES[name])], level['M'], nevents=1, evented_only=True))
        return out
    return cg.split_shards(cg.skeletons(level['N'], ALL, require_history=bool(level.get('hist'))), level['M'], nevents=1)


def expand(job, level):
    if 'chart' in job:
        yield job if 'snap' in job else job['chart']
        return
    allc = list(cg.charts(job['skel'], level['M'], nevents=1, targets='free', fix=job.get('fix'),
                          hist_target=bool(level.get('hist')), evented_only='templates' in level,
                          relax_w7=bool(level.get('relax_w7'))))
    reps = level.get('reps')
    if reps and len(allc) > reps:      # a few completions per shard, spread evenly (stated bound, not a sample of a claim)
        step = len(allc) / float(reps)
        allc = [allc[int(i * step)] for i in range(reps)]
    yield from allc


def canary_job():
    ch = {'N': 3, 'par': [-1, 0, 0], 'kind': [cg.COMPOUND, cg.BASIC, cg.BASIC], 'init': [1, -1, -1],
          'tr': [[1, 2, 1], [2, 1, 1]]}
    return {'chart': ch}, {'name': 'canary', 'N': 3, 'M': 2, 'K': 2}


def build(g, chart):
    key = ('c18',)
    if ('chart', key) in g.cache:
        return g.cache[('chart', key)]

    def code(kind, ident):
        if kind == 'guard':
            return 'VF.G(WHO, %d, event)' % ident
        if kind == 'action':
            s = 'VF.A(WHO, %d)\nx = x + D\nNL[0].append(1)\nVF.JOB(WHO, event)' % ident
            if ident == 0:
                s += "\nsend('b', k=x, delay=VF.DL(WHO))"
            return s
        if kind == 'entry':
            return "VF.P(WHO, 'en', %d)" % ident
        if kind == 'exit':
            return "VF.P(WHO, 'ex', %d)" % ident
    sc, trs, cm = cg.build(chart, 'id', code)
    for i in range(cm.n):
        st = sc.state_for(cm.names[i])
        if i % 3 == 0:
            st.invariants.append('x >= __old__.x')
            # FrozenContext is a *shallow* copy: the inner list is shared with the live context, so this holds
            # by aliasing -- before and after a snapshot alike
            st.invariants.append('len(__old__.NL[0]) == len(NL[0])')
        elif i % 3 == 1:
            st.postconditions.append('x >= __old__.x')
    for t, tr in enumerate(trs):
        tr.postconditions.append('x == __old__.x + D')
    from sismic.model import Transition
    # the chart reacts to its own internal event b (consumed, recorded by a macro step)
    g.cache[('chart', key)] = (sc, trs, cm)
    return sc, trs, cm


def view(st, trs):
    if st is None:
        return None
    out = [st.time, None if st.event is None else [type(st.event).__name__, st.event.name, dict(st.event.data)]]
    for ms in st.steps:
        t = None
        if ms.transition is not None:
            t = (ms.transition.source, ms.transition.target, ms.transition.event)
        out.append([t, list(ms.exited_states), list(ms.entered_states),
                    [[type(e).__name__, e.name, dict(e.data)] for e in ms.sent_events]])
    return out


def harness(g, chart, level, canary=False):
    from sismic.interpreter import Interpreter
    from sismic.exceptions import ContractError, NonDeterminismError, ConflictingTransitionsError
    forced = None
    if 'snap' in chart:
        forced, chart = chart, chart['chart']
    sc, trs, cm = build(g, chart)
    HUB.reset(g)
    HUB.guards = bool(level.get('guards', 1))
    x0 = g.int('x0')
    D = g.int('D', 0 if level.get('Dpos') else None)
    K = level['K']
    if forced is not None:
        snap_at, method = forced['snap'], ['pickle', 'deepcopy'][forced['method']]
    else:
        snap_at = g.choice('snap_at', K)           # before step snap_at (0 = right after initialisation)
        method = ['pickle', 'deepcopy'][g.choice('method', 2)]
    its = {}
    for who in ('plain', 'orig'):
        its[who] = Interpreter(sc, initial_context={'WHO': who, 'x': x0, 'D': D, 'NL': [[0]]})
    hist = []
    info = lambda: {'chart': cm.describe(), 'snapshot_before_step': snap_at, 'method': method, 'events': hist}   # noqa: E731

    def run(who, fn):
        try:
            return fn(its[who]), None
        except ContractError as e:
            return None, ('contract', type(e).__name__)
        except (NonDeterminismError, ConflictingTransitionsError) as e:
            return None, ('selection', type(e).__name__)
        except Exception as e:
            return None, ('other', type(e).__name__, str(e)[:120])

    def ctx(who):
        return {k: v for k, v in its[who].context.items() if k != 'WHO'}

    def compare(a, b, ra, rb, label):
        va = ra[1] if ra[1] is not None else view(ra[0], trs)
        vb = rb[1] if rb[1] is not None else view(rb[0], trs)
        if canary and label.startswith('restored') and isinstance(vb, list) and len(vb) > 2:
            vb = vb[:-1]
        g.prove_all([
            (label + '_same_macro_step', same_values(va, vb), lambda: dict(info(), a=str(va), b=str(vb), who=[a, b])),
            (label + '_same_configuration', its[a].configuration == its[b].configuration, info),
            (label + '_same_context', same_values(ctx(a), ctx(b)), lambda: dict(info(), a=str(ctx(a)), b=str(ctx(b)))),
            (label + '_same_probe_log', HUB.log.get(a, []) == HUB.log.get(b, []),
             lambda: dict(info(), a=str(HUB.log.get(a)), b=str(HUB.log.get(b)))),
        ])
        return ra[1]
    HUB.step = -1
    r = {w: run(w, lambda it: it.execute_once()) for w in ('plain', 'orig')}
    if compare('plain', 'orig', r['plain'], r['orig'], 'undisturbed'):
        return
    def take_snapshot():
        pend = list(getattr(its['orig'], '_internal_queue', []))
        if method == 'pickle':
            its['rest'] = pickle.loads(pickle.dumps(its['orig']))
            g.witness('snapshot_by_pickle')
        else:
            its['rest'] = _copy.deepcopy(its['orig'])
            g.witness('snapshot_by_deepcopy')
        its['rest'].context['WHO'] = 'rest'
        HUB.ndl['rest'] = HUB.ndl.get('orig', 0)
        if pend:
            g.witness('delayed_internal_event_pending_at_snapshot')
    for k in range(K):
        # the boundary between two macro steps is wide: the snapshot is taken before or after the client moved the clock
        late = (k == snap_at and level.get('qdelay') and g.choice('snap_after_clock_moved', 2) == 1)
        if k == snap_at and not late:
            take_snapshot()
        HUB.step = k
        HUB.log.clear()
        adv = g.real('adv%d' % k, 0)
        ev = ([None, 'a', 'b'] if level.get('fixed') else [None, 'a'])[g.choice('ev%d' % k, 3 if level.get('fixed') else 2)]
        hist.append(ev)
        for w in [w for w in ('plain', 'orig', 'rest') if w in its]:
            its[w].clock.time = its[w].clock.time + adv
        if late:
            take_snapshot()
            g.witness('snapshot_after_clock_moved', adv > 0)
        whos = [w for w in ('plain', 'orig', 'rest') if w in its]
        qd = g.real('qd%d' % k, 0) if (ev and level.get('qdelay')) else None
        for w in whos:
            if ev:
                from sismic.model import Event as _Ev
                if qd is None:
                    its[w].queue(_Ev(ev, jobs=[1, 2, 3]))      # every interpreter gets its own parameter object
                else:
                    its[w].queue(_Ev(ev, jobs=[1, 2, 3], delay=qd))
        order_ = whos if k % 2 == 0 else [w for w in ('rest', 'plain', 'orig') if w in whos]
        r = {}
        for w in order_:
            r[w] = run(w, lambda it: it.execute_once())
        stop = compare('plain', 'orig', r['plain'], r['orig'], 'undisturbed')
        if 'rest' in its:
            stop = compare('orig', 'rest', r['orig'], r['rest'], 'restored') or stop
            so = r['orig'][0]
            if so is not None:
                if any(cm.kind[cm.idx[x]] >= cg.SH for x in so.exited_states):
                    g.witness('history_restored_after_restore')
                for x in so.exited_states:
                    if cm.idx[x] % 3 == 1:
                        g.witness('postcondition_only_state_left_after_restore')
                if so.transitions:
                    g.witness('old_used_after_restore')
            q = getattr(its['orig'], '_internal_queue', [])
            if len(q) >= 2:
                g.witness('equal_due_times_after_restore', Eq(q[0][0], q[1][0]))
        if stop:
            if stop[0] == 'contract':
                g.witness('contract_error_in_all_three')
            if stop[0] == 'other':
                g.fail('unexpected_exception', lambda: dict(info(), error=str(stop)))
            return
    g.sample({'chart': cm.describe(), 'snapshot_before_step': snap_at, 'method': method, 'events': hist})
