"""C03 -- steps run to completion in documented order and the trace tells the truth.

Unit: Interpreter.execute_once (_create_steps, _apply_step, _stabilize, _create_stabilization_step,
_sort_transitions) and MacroStep/MicroStep, through the public API.  Every state has entry/exit
probes, every transition an action probe that may send an event.  Symbolic scalars: one guard bit per
(transition, step).  Solver-enumerated: chart (six kinds, free targets), naming scheme (name order
decoupled from declaration order and depth), events, construction (direct or by editing with move_state).  Oracle: (a) the probe log of a macro step
equals the log predicted from the returned micro steps and the configuration is their fold; (b) order
laws recomputed from the generated arrays: exit set/innermost-first, entry path/outermost-first,
transitions by (-depth(source), source name), stabilisation before the next transition, orthogonal
siblings in name order; (c) MacroStep aggregates are the concatenation of its micro steps.
"""
from .. import chartgen as cg
from ..steplib import Inst, micro_summary

ID = 'C03'
ALL = [cg.BASIC, cg.COMPOUND, cg.ORTH, cg.FINAL, cg.SH, cg.DH]
B, C, O, F, S, D = cg.BASIC, cg.COMPOUND, cg.ORTH, cg.FINAL, cg.SH, cg.DH
TEMPLATES = {
    # root||{R1{X, Q||{q1,q2}}, R2}: a transition into a region of a not yet active orthogonal state
    'TA': {'N': 7, 'par': [-1, 0, 1, 1, 3, 3, 0], 'kind': [O, C, B, O, B, B, B]},
    # root||{R1{X, P{A,H}}, R2}: a transition to a history state next to a parallel transition
    'TB': {'N': 7, 'par': [-1, 0, 1, 1, 3, 3, 0], 'kind': [O, C, B, C, B, S, B]},
    # root{Z, P{Q||{r1,r2}, H*}}: deep history over orthogonal content (restored regions must come in name order)
    'TD2': {'N': 7, 'par': [-1, 0, 0, 2, 3, 3, 2], 'kind': [C, B, C, O, B, B, D]},
    # root{A, P||{R1{a1,a2}, R2{b1,b2}}}: nested exits of orthogonal content
    'TC': {'N': 9, 'par': [-1, 0, 0, 2, 3, 3, 2, 6, 6], 'kind': [C, B, O, C, B, B, C, B, B]},
}
LEVELS = {
    'quick': [
        {'name': 'L1-N3-M2-K2', 'N': 3, 'M': 2, 'K': 2, 'namings': ['rev'], 'send': 1, 'budget_s': 60},
        {'name': 'L2-N4-M1-K2', 'N': 4, 'M': 1, 'K': 2, 'namings': ['mix'], 'send': 2, 'constr': 1, 'budget_s': 90},
        {'name': 'L3-N4-M2-K1', 'N': 4, 'M': 2, 'K': 1, 'namings': ['id'], 'send': 0, 'budget_s': 150},
        {'name': 'L4-TATB-M2-K1', 'templates': ['TA', 'TB'], 'M': 2, 'K': 1, 'nevents': 1, 'namings': ['rev'],
         'send': 2, 'budget_s': 90},
        {'name': 'L5-TD2-M2-K3', 'templates': ['TD2'], 'M': 2, 'K': 3, 'nevents': 1, 'namings': ['rev', 'mix'], 'send': 0,
         'hist_target': 1, 'evented': 1, 'budget_s': 60},
    ],
    'thorough': [
        {'name': 'L1-N3-M3-K2', 'N': 3, 'M': 3, 'K': 2, 'namings': ['id', 'rev', 'mix'], 'send': 1, 'budget_s': 400},
        {'name': 'L2-N4-M2-K2', 'N': 4, 'M': 2, 'K': 2, 'namings': ['id', 'rev', 'mix'], 'send': 1, 'budget_s': 1500},
        {'name': 'L3-N5-M2-K1', 'N': 5, 'M': 2, 'K': 1, 'namings': ['rev', 'mix'], 'send': 2, 'budget_s': 1500},
        {'name': 'L4-TATBTC-M2-K2', 'templates': ['TA', 'TB', 'TC'], 'M': 2, 'K': 2, 'nevents': 2,
         'namings': ['id', 'rev'], 'send': 2, 'budget_s': 1500},
        {'name': 'L5-TATB-M3-K1', 'templates': ['TA', 'TB'], 'M': 3, 'K': 1, 'nevents': 1,
         'namings': ['mix'], 'send': 1, 'budget_s': 1500},
    ],
}
WITNESSES = ['two_transitions_in_one_step', 'orthogonal_siblings_exited', 'orthogonal_siblings_entered',
             'history_restored', 'final_exit', 'sent_event_listed', 'nested_exit']
STUBS = ['entry/exit/action probes log and (action of transition 0) send an event; guards symbolic']
ASSUMPTIONS = ['well-formed charts (DESIGN §2), six kinds, free targets', 'events from {a, b}',
               'relative order of the descendants of different orthogonal siblings is not demanded (only '
               'innermost-first and sibling name order); C07 demands it be declaration independent']
OUTSIDE = ['charts above the N/M/K bound of the completed level', 'what memory a history state restores (C06)']


def shards(level):
    if 'templates' in level:
        out = []
        for name in level['templates']:
            out.extend(dict(sh, template=name) for sh in
                       cg.split_shards([dict(TEMPLATES[name])], level['M'], nevents=level.get('nevents', 2),
                                       evented_only=bool(level.get('evented'))))
        return out
    return cg.split_shards(cg.skeletons(level['N'], ALL), level['M'])


def expand(job, level):
    if 'chart' in job:
        yield job['chart']
        return
    yield from cg.charts(job['skel'], level['M'], nevents=level.get('nevents', 2), targets='free',
                         fix=job.get('fix'), hist_target=bool(level.get('hist_target')),
                         evented_only=bool(level.get('evented')))


def canary_job():
    ch = {'N': 3, 'par': [-1, 0, 0], 'kind': [cg.ORTH, cg.BASIC, cg.BASIC], 'init': [-1, -1, -1], 'tr': [[0, 0, 1]]}
    return {'chart': ch}, {'name': 'canary', 'N': 3, 'M': 1, 'K': 1, 'namings': ['id'], 'send': 0}


def scope_child(cm, s, t):
    """child of the (possibly virtual) scope that contains or is the source"""
    lca = cm.lca_strict(s, t)
    x = s
    while cm.par[x] != lca:
        x = cm.par[x]
    return x, lca


def check_macro(g, inst, cm, st, log, conf_before, info, canary=False):
    """all C03 obligations for one returned macro step; returns the folded configuration"""
    names = cm.names
    conf = set(conf_before)
    pred = []
    sent_pred = []
    trans_order = []
    prev_was_transition_block = False
    for mi, ms in enumerate(st.steps):
        ex = [cm.idx[x] for x in ms.exited_states]
        en = [cm.idx[x] for x in ms.entered_states]
        t = None if ms.transition is None else inst.tindex(ms.transition)
        if t is not None:
            # (b) the previous transition (with its stabilisation) left a legal configuration
            if trans_order:
                g.prove(cm.legal([names[i] for i in conf]) is None, 'stable_before_next_transition', info)
            trans_order.append(t)
            s, tg, _ = cm.tr[t]
            if tg < 0:
                g.prove(not ex and not en, 'internal_transition_exits_and_enters_nothing', info)
            else:
                child, lca = scope_child(cm, s, tg)
                exp_ex = {i for i in conf if i == child or cm.is_anc(child, i)}
                g.prove(set(ex) == exp_ex and len(ex) == len(set(ex)), 'exit_set_is_active_scope', info)
                path = [tg] + [a for a in cm.ancestors(tg) if a != lca and (lca < 0 or cm.is_anc(lca, a))]
                g.prove(en == path[::-1], 'entry_path_outermost_first', info)
        else:
            if ex and en:          # history state resolved
                g.prove(len(ex) == 1 and cm.kind[ex[0]] >= cg.SH, 'only_history_exits_in_stabilisation', info)
                g.witness('history_restored')
            elif ex:
                g.prove(len(ex) == 2 and cm.kind[ex[0]] == cg.FINAL and ex[1] == 0 and cm.par[ex[0]] == 0,
                        'final_exit_shape', info)
                g.witness('final_exit')
        # innermost first: nobody is exited before one of its active descendants
        ok = all(not cm.is_anc(ex[i], ex[j]) for i in range(len(ex)) for j in range(i + 1, len(ex)))
        g.prove(ok, 'exit_innermost_first', info)
        if any(cm.is_anc(ex[j], ex[i]) for i in range(len(ex)) for j in range(i + 1, len(ex))):
            g.witness('nested_exit')
        ok = all(not cm.is_anc(en[j], en[i]) for i in range(len(en)) for j in range(i + 1, len(en)))
        g.prove(ok, 'entry_outermost_first', info)
        for lst, w in ((ex, 'orthogonal_siblings_exited'), (en, 'orthogonal_siblings_entered')):
            for i in range(len(lst)):
                for j in range(i + 1, len(lst)):
                    a, b = lst[i], lst[j]
                    if cm.par[a] == cm.par[b] and cm.par[a] >= 0 and cm.kind[cm.par[a]] == cg.ORTH:
                        good = names[a] < names[b]
                        if canary:
                            good = not good
                        g.prove(good, 'orthogonal_siblings_in_name_order', info)
                        g.witness(w)
        for i in ex:
            g.prove(i in conf, 'exited_state_was_active', info)
            conf.discard(i)
            pred.append(('ex', names[i]))
        if t is not None:
            pred.append(('act', t))
        for i in en:
            g.prove(i not in conf and (cm.par[i] < 0 or cm.par[i] in conf), 'entered_under_active_parent', info)
            conf.add(i)
            pred.append(('en', names[i]))
        sent_pred.append([getattr(e, 'tag', None) for e in ms.sent_events])
    # (b) order of transitions within the macro step
    keys = [(-cm.depth[cm.tr[t][0]], cm.names[cm.tr[t][0]]) for t in trans_order]
    g.prove(keys == sorted(keys), 'transitions_by_depth_then_name', info)
    if len(trans_order) >= 2:
        g.witness('two_transitions_in_one_step')
    # (a) what ran is what the trace says
    ran = [e for e in log if e[0] in ('en', 'ex', 'act')]
    g.prove(ran == pred, 'probe_log_equals_trace', lambda: dict(info(), ran=ran, predicted=pred))
    tags = [e[1] for e in log if e[0] == 'send']
    g.prove(tags == [x for seg in sent_pred for x in seg], 'sent_events_listed_in_order',
            lambda: dict(info(), sent=tags, listed=sent_pred))
    if tags:
        g.witness('sent_event_listed')
    # (c) aggregates
    agg_ok = (st.entered_states == [x for ms in st.steps for x in ms.entered_states]
              and st.exited_states == [x for ms in st.steps for x in ms.exited_states]
              and [id(x) for x in st.transitions] == [id(ms.transition) for ms in st.steps if ms.transition]
              and [id(x) for x in st.sent_events] == [id(e) for ms in st.steps for e in ms.sent_events])
    evs = [ms.event for ms in st.steps if ms.event is not None]
    agg_ok = agg_ok and (st.event is (evs[0] if evs else None)) and all(e is evs[0] for e in evs)
    g.prove(agg_ok, 'macrostep_is_concatenation', info)
    g.prove(sorted(names[i] for i in conf) == sorted(inst.it.configuration), 'configuration_is_fold_of_trace',
            lambda: dict(info(), folded=sorted(names[i] for i in conf), actual=inst.it.configuration))
    return conf


def harness(g, chart, level, canary=False):
    from sismic.exceptions import NonDeterminismError, ConflictingTransitionsError
    cons = cg.constructions(chart) if level.get('constr') else [None]
    moved = cons[g.choice('constr', len(cons))] if len(cons) > 1 else None
    namings = level.get('namings', ['id'])
    if moved is not None and 'id' not in namings:
        namings = namings + ['id']      # a stale depth shows only when the tie-breaking name order goes the wrong way
    naming = namings[g.choice('naming', len(namings))]
    counter = [0]

    def S():
        counter[0] += 1
        tag = 'x%d' % counter[0]
        inst.log.append(('send', tag))
        return tag

    nst = chart['N']

    def hook(kind, ident):
        mode = level.get('send')
        if kind == 'action' and ident == 0 and mode == 1:
            return "A(0)\nsend('b', tag=S())"
        if mode == 2:      # sends from entry code of the last (deepest declared) state and of state 1
            if kind == 'entry' and ident in (nst - 1, 1):
                return "P('en', %d)\nsend('b', tag=S())" % ident
            if kind == 'exit' and ident == nst - 2:
                return "P('ex', %d)\nsend('c', tag=S())" % ident
        return None
    inst = Inst(g, chart, naming, code_hook=hook, extra_context={'S': S}, moved=moved)
    cm, it = inst.cm, inst.it
    hist = []
    cur = {}
    info = lambda: {'chart': cm.describe(), 'naming': naming, 'events': hist,      # noqa: E731
                    'step': micro_summary(inst, cur.get('st'))}
    st = inst.init()
    cur['st'] = st
    log = list(inst.log)
    g.prove(st is not None, 'first_step_initialises', info)
    conf = check_macro(g, inst, cm, st, log, set(), info, canary)
    for k in range(level['K']):
        ev = 'a' if level.get('nevents') == 1 else 'ab'[g.choice('ev%d' % k, 2)]
        hist.append(ev)
        st, err, log = inst.step(k, ev)
        cur['st'] = st
        if err is not None:
            if isinstance(err, (NonDeterminismError, ConflictingTransitionsError)):
                return
            g.fail('unexpected_exception', lambda: dict(info(), exception=repr(err)))
        if st is None:
            g.prove(not [e for e in log if e[0] != 'guard'], 'nothing_runs_in_a_none_step', info)
            continue
        conf = check_macro(g, inst, cm, st, log, conf, info, canary)
    g.sample({'chart': cm.describe(), 'naming': naming, 'events': hist, 'last': micro_summary(inst, cur.get('st'))})
