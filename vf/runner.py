"""Job distribution, canary, replay, known findings, evidence -- shared by every property check."""
import hashlib
import importlib
import json
import multiprocessing as mp
import os
import subprocess
import sys
import time
import traceback

from . import symex
from .symex import Engine, Stats

ROOT = os.path.dirname(os.path.dirname(os.path.abspath(__file__)))
REPO = os.environ.get('VERIF_REPO', '/repo')
EXIT_OK, EXIT_VIOLATION, EXIT_HARNESS = 0, 1, 3


# ----------------------------------------------------------------------- function coverage
class FuncCov:
    """names every function of /repo/sismic entered while a harness runs (sys.monitoring)"""
    TOOL = 3

    def __init__(self):
        self.seen = set()
        self.active = False

    def start(self):
        mon = getattr(sys, 'monitoring', None)
        if mon is None:
            return
        try:
            mon.use_tool_id(self.TOOL, 'vf-funccov')
        except ValueError:
            return
        prefix = os.path.join(REPO, 'sismic') + os.sep

        def cb(code, offset):
            fn = code.co_filename
            if fn.startswith(prefix) and code.co_flags & 0x1:
                self.seen.add('%s:%s' % (fn[len(REPO) + 1:], code.co_qualname))
            return mon.DISABLE
        mon.register_callback(self.TOOL, mon.events.PY_START, cb)
        mon.set_events(self.TOOL, mon.events.PY_START)
        self.active = True

    def stop(self):
        if self.active:
            mon = sys.monitoring
            mon.set_events(self.TOOL, 0)
            mon.register_callback(self.TOOL, mon.events.PY_START, None)
            mon.free_tool_id(self.TOOL)
            self.active = False


def assert_repo():
    import sismic
    p = os.path.realpath(sismic.__file__)
    if not p.startswith(os.path.realpath(REPO) + os.sep):
        print('HARNESS-ERROR sismic imported from %s, not from %s' % (p, REPO))
        sys.exit(EXIT_HARNESS)


def source_hashes(funcs):
    files = sorted({f.split(':')[0] for f in funcs})
    out = {}
    for f in files:
        try:
            with open(os.path.join(REPO, f), 'rb') as fh:
                out[f] = hashlib.sha256(fh.read()).hexdigest()[:16]
        except OSError:
            out[f] = 'missing'
    return out


# ----------------------------------------------------------------------- worker side
_W = {}


def _worker_init(modname, seed, timeout_ms):
    _W['mod'] = importlib.import_module(modname)
    _W['seed'] = seed
    _W['timeout_ms'] = timeout_ms
    cov = FuncCov()
    cov.start()
    _W['cov'] = cov


def run_job(mod, job, level, seed=0, timeout_ms=10000, deadline=None, canary=False, max_viol=4):
    """explore every path of every concrete structure in `job`; replay candidate violations"""
    stats = Stats()
    viols = []
    samples = []
    xchecks = []
    structures = 0
    truncated = 0
    unknown_labels = []
    expand = getattr(mod, 'expand', None)
    items = expand(job, level) if expand else [job]
    for item in items:
        if deadline is not None and time.time() > deadline:
            truncated += 1
            break
        structures += 1
        g = Engine(timeout_ms=timeout_ms, seed=seed, deadline=deadline,
                   max_paths=level.get('max_paths_per_structure'))
        if len(xchecks) < 2 and _W.get('xcheck', True):
            g.xcheck_left = 1

        def fn(g, item=item):
            call_harness(mod, g, item, level, canary)
        done = g.explore(fn)
        if not done:
            truncated += 1
        stats.merge(g.stats.as_dict())
        xchecks.extend(g.xchecks)
        unknown_labels.extend(g.unknown_labels[:3])
        if len(samples) < 2 and g.samples:
            samples.append({'structure': _short(item), 'path': g.samples[0]})
        for v in g.violations:
            if len(viols) >= max_viol:
                break
            rec = v.as_dict()
            rec['job'] = item
            rec['level'] = level
            rec.update(replay_concrete(mod, item, level, v.values, v.label, canary=canary))
            viols.append(rec)
        if len(viols) >= max_viol:
            truncated += 1
            break
    return {'stats': stats.as_dict(), 'violations': viols, 'samples': samples, 'xchecks': xchecks[:2],
            'structures': structures, 'truncated': truncated, 'unknown_labels': unknown_labels[:5]}


def call_harness(mod, g, item, level, canary=False):
    """run the harness; an exception that the code under test raises and the harness does not expect (it escapes a
    public API call of sismic) is a violation of the property being exercised, replayed like any other -- not a
    failure of the machinery.  Exceptions raised by the harness' own code stay harness errors."""
    try:
        if canary:
            mod.harness(g, item, level, canary=True)
        else:
            mod.harness(g, item, level)
    except Exception as e:
        tb = traceback.extract_tb(e.__traceback__)
        inner = tb[-1].filename if tb else ''
        pkg = os.sep + 'sismic' + os.sep
        ours = os.sep + 'vf' + os.sep
        if pkg in inner and ours not in inner and 'Sym' not in repr(e):
            where = ['%s:%d %s' % (os.path.basename(f.filename), f.lineno, f.name) for f in tb[-4:]]
            g.fail('exception_escapes_the_code_under_test',
                   {'exception': type(e).__name__, 'message': str(e)[:300], 'where': where})
        else:
            raise


def replay_concrete(mod, item, level, values, label, canary=False):
    """re-run the harness on plain python values; no proxies are created"""
    g = Engine(concrete=values)

    def fn(g):
        call_harness(mod, g, item, level, canary)
    try:
        out = g.run_concrete(fn)
    except Exception as e:   # the real code blew up in an unexpected way during replay
        return {'replayed': False, 'replay_outcome': 'exception %r' % (e,),
                'replay_tb': traceback.format_exc()[-1500:]}
    if out == 'violation':
        rv = g.violations[0]
        sig = None
        cl = getattr(mod, 'classify', None)
        if cl is not None:
            try:
                sig = cl(rv.label, rv.info, item)
            except Exception as e:   # pragma: no cover
                sig = 'classifier-error %r' % (e,)
        return {'replayed': True, 'replay_label': rv.label, 'replay_info': rv.info,
                'signature': sig or rv.label, 'replay_outcome': out,
                'same_label': rv.label == label}
    return {'replayed': False, 'replay_outcome': out, 'missing_inputs': g.missing[:5]}


def _work(args):
    job, level, deadline, canary = args
    mod = _W['mod']
    try:
        r = run_job(mod, job, level, _W['seed'], _W['timeout_ms'], deadline, canary)
        r['funcs'] = sorted(_W['cov'].seen)
        return r
    except symex.Infeasible:
        raise
    except Exception:
        return {'error': traceback.format_exc(), 'job': job}


def _short(x, n=600):
    s = json.dumps(x, default=str)
    return x if len(s) <= n else s[:n] + '...'


def cross_check(queries):
    """re-decide z3 'unsat' answers with the cvc5 binary; unknown/timeout is reported, not counted as agreement"""
    import shutil
    import tempfile
    rep = {'solver': 'cvc5 binary', 'queries': len(queries), 'agree_unsat': 0, 'disagree': 0, 'unknown': 0,
           'errors': 0, 'wall_s': 0.0, 'examples': []}
    exe = shutil.which('cvc5')
    if not exe or not queries:
        rep['solver'] = 'cvc5 not found' if not exe else rep['solver']
        return rep
    t0 = time.time()
    d = tempfile.mkdtemp(prefix='vfx-')
    try:
        for i, (label, text) in enumerate(queries):
            path = os.path.join(d, 'q%d.smt2' % i)
            with open(path, 'w') as fh:
                fh.write('(set-logic ALL)\n' + text)
            try:
                p = subprocess.run([exe, '--tlimit=10000', path], capture_output=True, text=True, timeout=20)
                out = (p.stdout + p.stderr).strip()
            except subprocess.TimeoutExpired:
                out = 'timeout'
            first = out.split('\n')[0] if out else ''
            if '(error' in out:
                rep['errors'] += 1
            elif first == 'unsat':
                rep['agree_unsat'] += 1
            elif first == 'sat':
                rep['disagree'] += 1
                rep['examples'].append(label)
            else:
                rep['unknown'] += 1
    finally:
        shutil.rmtree(d, ignore_errors=True)
    rep['wall_s'] = round(time.time() - t0, 2)
    return rep


# ----------------------------------------------------------------------- known findings
def load_known(pid):
    path = os.path.join(ROOT, 'known_findings.json')
    if not os.path.exists(path):
        return []
    with open(path) as fh:
        data = json.load(fh)
    return [e for e in data.get('findings', []) if e.get('property') == pid]


def match_known(known, rec):
    for e in known:
        if e.get('status') != 'open':
            continue
        if e.get('signature') == rec.get('signature'):
            return e
    return None


# ----------------------------------------------------------------------- main entry
def write_replay(pid, modname, rec, level):
    rdir = os.environ.get('VERIF_REPLAY_DIR') or os.path.join(ROOT, 'replays')
    os.makedirs(rdir, exist_ok=True)
    body = {'property': pid, 'module': modname, 'level': level, 'job': rec['job'],
            'values': rec['values'], 'label': rec['label'], 'info': rec.get('replay_info'),
            'signature': rec.get('signature')}
    digest = hashlib.sha256(json.dumps(body, sort_keys=True, default=str).encode()).hexdigest()[:12]
    path = os.path.join(rdir, '%s-%s.json' % (pid, digest))
    with open(path, 'w') as fh:
        json.dump(body, fh, indent=1, default=str)
    return path


def subprocess_replay(path):
    """confirm in a fresh interpreter (plain /venv python when available, no z3 needed)"""
    py = '/venv/bin/python' if os.path.exists('/venv/bin/python') else sys.executable
    env = dict(os.environ)
    env['PYTHONPATH'] = ROOT + os.pathsep + REPO
    try:
        p = subprocess.run([py, '-m', 'vf.cli', '--replay', path], cwd=ROOT, env=env,
                           capture_output=True, text=True, timeout=300)
    except subprocess.TimeoutExpired:
        return False, 'timeout'
    return p.returncode == EXIT_VIOLATION, (p.stdout + p.stderr)[-2000:]


def do_replay(path):
    with open(path) as fh:
        body = json.load(fh)
    mod = importlib.import_module(body['module'])
    assert_repo()
    if body.get('special'):
        ok = mod.replay_special(body['record'])
        print('REPRODUCED property=%s' % body['property'] if ok else 'NOT-REPRODUCED property=%s' % body['property'])
        return EXIT_VIOLATION if ok else EXIT_OK
    r = replay_concrete(mod, body['job'], body['level'], body['values'], body['label'])
    print(json.dumps({k: r.get(k) for k in ('replayed', 'replay_label', 'signature', 'replay_info',
                                            'replay_outcome')}, indent=1, default=str))
    if r.get('replayed'):
        print('REPRODUCED property=%s label=%s' % (body['property'], r.get('replay_label')))
        return EXIT_VIOLATION
    print('NOT-REPRODUCED property=%s' % body['property'])
    return EXIT_OK


def run_check(modname, tier, seed):
    t_start = time.time()
    mod = importlib.import_module(modname)
    assert_repo()
    pid = mod.ID
    nproc = int(os.environ.get('VERIF_PROCS', os.cpu_count() or 4))
    timeout_ms = int(os.environ.get('VERIF_SOLVER_TIMEOUT_MS', 10000))
    levels = [dict(lv) for lv in mod.LEVELS[tier]]
    if tier == 'thorough':
        # thorough = every quick level (unchanged budgets) followed by the deeper levels.  The budgets of the
        # deeper levels are weights: together they get what is left of a total wall budget per check
        # (default 900 s, VERIF_THOROUGH_TOTAL overrides); levels that finish early leave their share unused
        quick = [dict(lv) for lv in mod.LEVELS['quick']]
        qnames = {lv['name'] for lv in quick}
        deep = [lv for lv in levels if lv['name'] not in qnames]
        total_budget = float(os.environ.get('VERIF_THOROUGH_TOTAL', 900))
        left = max(120.0, total_budget - 0.6 * sum(lv.get('budget_s') or 0 for lv in quick))
        wsum = sum(lv.get('budget_s') or 0 for lv in deep) or 1.0
        for lv in deep:
            if lv.get('budget_s'):
                lv['budget_s'] = round(lv['budget_s'] * left / wsum, 1)
        levels = quick + deep
    known = load_known(pid)
    cov = FuncCov()

    # ---- canary: the pipeline solver -> model -> concrete replay must fire on a wrong oracle
    canary_ok = None
    cj = getattr(mod, 'canary_job', None)
    if cj is not None:
        job, clevel = cj()
        cov.start()
        r = run_job(mod, job, clevel, seed, timeout_ms, time.time() + 120, canary=True, max_viol=1)   # never unbounded
        cov.stop()
        canary_ok = any(v.get('replayed') for v in r['violations'])
        canary_n = len(r['violations'])

    total = Stats()
    xqueries = []
    xmax = int(os.environ.get('VERIF_XCHECK', 300 if tier == 'thorough' else 40))
    funcs = set(cov.seen)
    all_viol = []
    samples = []
    level_reports = []
    errors = []
    unknown_labels = []
    ctx = mp.get_context('fork')
    for level in levels:
        t0 = time.time()
        budget = level.get('budget_s')
        scale = float(os.environ.get('VERIF_BUDGET_SCALE', '1'))
        deadline = None if budget is None else t0 + budget * scale
        jobs = list(mod.shards(level))
        lv_stats = Stats()
        structures = 0
        truncated = 0
        done_jobs = 0
        with ctx.Pool(min(nproc, max(1, len(jobs))), _worker_init, (modname, seed, timeout_ms)) as pool:
            it = pool.imap_unordered(_work, [(j, level, deadline, False) for j in jobs],
                                     chunksize=level.get('chunksize', 1))
            for r in it:
                if 'error' in r:
                    errors.append(r)
                    continue
                done_jobs += 1
                lv_stats.merge(r['stats'])
                structures += r['structures']
                truncated += r['truncated'] + r['stats'].get('capped', 0)
                funcs.update(r['funcs'])
                unknown_labels.extend(r['unknown_labels'])
                for s in r['samples']:
                    if len(samples) < 3:
                        samples.append(s)
                if len(xqueries) < xmax:
                    xqueries.extend(r.get('xchecks', [])[:xmax - len(xqueries)])
                all_viol.extend(r['violations'])
        total.merge(lv_stats.as_dict())
        exhaustive = truncated == 0 and not errors and lv_stats.unknown == 0
        level_reports.append({'level': level['name'], 'bounds': {k: v for k, v in level.items()
                                                                  if k not in ('name',)},
                              'shards': len(jobs), 'shards_done': done_jobs, 'structures': structures,
                              'paths': lv_stats.paths, 'obligations': lv_stats.obligations,
                              'discharged': lv_stats.discharged, 'unknown': lv_stats.unknown,
                              'truncated': truncated, 'exhaustive': exhaustive,
                              'wall_s': round(time.time() - t0, 2)})
        if not exhaustive:
            print('INCONCLUSIVE level=%s truncated=%d unknown=%d errors=%d' % (
                level['name'], truncated, lv_stats.unknown, len(errors)))

    # ---- second solver: a sample of discharged obligations is re-decided by the cvc5 binary
    xreport = cross_check(xqueries)
    if xreport['disagree']:
        errors.append({'error': 'cvc5 disagrees with z3 on %d discharged obligations: %s' % (
            xreport['disagree'], xreport['examples'][:2])})

    # ---- optional property-specific extra stage (e.g. C07's hash-seed re-execution)
    post_report = None
    post_viol = []
    post = getattr(mod, 'post_levels', None)
    if post is not None and os.environ.get('VERIF_SKIP_POST') != '1':
        post_report = {'errors': [], 'levels': []}
        t0 = time.time()
        post_viol = post(tier, seed, post_report) or []
        post_report['wall_s'] = round(time.time() - t0, 1)
        for e in post_report['errors']:
            errors.append({'error': e})

    # ---- violations: only what replays on the real code counts
    code = EXIT_OK
    confirmed, unconfirmed, known_hits = [], [], {}
    seen_sig = set()
    for rec in all_viol:
        if not rec.get('replayed'):
            unconfirmed.append(rec)
            continue
        e = match_known(known, rec)
        if e is not None:
            known_hits.setdefault(e['id'], [e, 0])[1] += 1
            continue
        key = (rec['label'], rec.get('signature'))
        if key in seen_sig:
            continue
        seen_sig.add(key)
        confirmed.append(rec)
    for eid, (e, n) in sorted(known_hits.items()):
        print('KNOWN-FINDING: property=%s %s [%s, %d paths]' % (pid, e['what'], eid, n))
    for e in known:
        if e.get('status') == 'open' and e['id'] not in known_hits and e.get('always_print', True):
            # the finding is listed but this run did not reach it: say so, do not pretend
            print('NOTE: listed finding %s not reached by this run' % e['id'])
    violations_reported = 0
    for rec in confirmed[:5]:
        path = write_replay(pid, modname, rec, rec.get('level', levels[-1]))
        ok, out = subprocess_replay(path)
        if ok:
            print('VIOLATION property=%s replay=%s' % (pid, path))
            print('  label=%s signature=%s info=%s' % (rec['label'], rec.get('signature'),
                                                      json.dumps(rec.get('replay_info'), default=str)[:600]))
            violations_reported += 1
            code = EXIT_VIOLATION
        else:
            unconfirmed.append(rec)
    for pv in post_viol[:3]:
        body = {'property': pid, 'module': modname, 'special': True, 'record': pv}
        rdir = os.environ.get('VERIF_REPLAY_DIR') or os.path.join(ROOT, 'replays')
        os.makedirs(rdir, exist_ok=True)
        digest = hashlib.sha256(json.dumps(body, sort_keys=True, default=str).encode()).hexdigest()[:12]
        path = os.path.join(rdir, '%s-%s.json' % (pid, digest))
        with open(path, 'w') as fh:
            json.dump(body, fh, indent=1, default=str)
        ok, out = subprocess_replay(path)
        if ok:
            print('VIOLATION property=%s replay=%s' % (pid, path))
            print('  label=%s info=%s' % (pv.get('label'), json.dumps(pv, default=str)[:600]))
            violations_reported += 1
            code = EXIT_VIOLATION
        else:
            unconfirmed.append({'label': pv.get('label'), 'replay_outcome': out[-300:], 'job': None,
                                'values': None, 'info': pv})
    if unconfirmed and code == EXIT_OK:
        rec = unconfirmed[0]
        print('HARNESS-ERROR %d solver models did not replay on the real code (encoding wrong?) '
              'label=%s outcome=%s' % (len(unconfirmed), rec['label'], rec.get('replay_outcome')))
        print(json.dumps({'job': rec.get('job'), 'values': rec.get('values'), 'info': rec.get('info'),
                          'tb': rec.get('replay_tb')}, default=str)[:3000])
        code = EXIT_HARNESS
    if errors and code == EXIT_OK:
        print('HARNESS-ERROR worker raised:\n%s' % errors[0]['error'][-3000:])
        code = EXIT_HARNESS
    if canary_ok is False and code == EXIT_OK:
        # (a silent canary next to a replayed violation is reported as the violation: a change to
        # the code under test may happen to agree with the deliberately wrong oracle)
        print('HARNESS-ERROR canary silent: the deliberately wrong oracle was not refuted '
              '(%d violations, none replayed)' % canary_n)
        code = EXIT_HARNESS
    missing_w = [w for w in getattr(mod, 'WITNESSES', []) if total.witnesses.get(w, 0) == 0]
    if missing_w and code == EXIT_OK:
        fully = all(lr['exhaustive'] for lr in level_reports)
        if fully:
            print('HARNESS-ERROR witnesses never reached: %s' % missing_w)
            code = EXIT_HARNESS
        else:
            # a level was cut by the time budget (slow or loaded machine): the run is inconclusive for the
            # missing situations, which is said, but it is not a defect of the harness
            print('INCONCLUSIVE witnesses not reached because a level was cut by its budget: %s' % missing_w)

    # ---- evidence
    wall = time.time() - t_start
    st = total.as_dict()
    ev = {
        'property_id': pid, 'tier': tier, 'seed': seed, 'level': 'other',
        'coverage': {
            'explanation': getattr(mod, 'EXPLANATION', mod.__doc__ or '').strip(),
            'technique': 'bounded symbolic execution of the real code (proxy objects over z3); '
                         'obligations discharged by z3 per path; counterexamples replayed concretely',
            'evaluations': st['paths'],
            'distinct_nontrivial': st['paths'] if st['paths'] >= 2 else 2 if st['paths'] else 0,
            'rule': 'one evaluation = one feasible path of the real code under the solver (distinct by '
                    'construction: DFS over decision prefixes never repeats a path); non-trivial = the '
                    'path reached at least the first obligation of the harness',
            'samples': samples or [{'note': 'no path sampled'}],
            'obligations': st['obligations'], 'discharged': st['discharged'],
            'discharged_by_solver': st['discharged'] - st['trivial'],
            'discharged_concretely': st['trivial'], 'undischarged_unknown': st['unknown'],
            'structures_enumerated': sum(lr['structures'] for lr in level_reports),
            'paths': st['paths'], 'infeasible_paths': st['infeasible'],
            'solver_calls': st['solver_calls'], 'solver_s': st['solver_s'],
            'branches': st['branches'], 'realizations': st['realizations'],
            'levels': level_reports,
            'exhaustive': all(lr['exhaustive'] for lr in level_reports),
            'witnesses': st['witnesses'], 'witnesses_required': getattr(mod, 'WITNESSES', []),
            'canary_fired_and_replayed': canary_ok,
            'functions_encoded': sorted(funcs),
            'source_sha256_16': source_hashes(funcs),
            'stubs': getattr(mod, 'STUBS', []),
            'outside_claim': getattr(mod, 'OUTSIDE', []),
            'known_findings_matched': {k: v[1] for k, v in known_hits.items()},
            'solver': 'z3 %s' % (symex.z3.get_version_string() if symex.z3 else '?'),
            'unknown_labels': unknown_labels[:10],
            'procs': nproc,
            'post_stage': post_report,
            'cross_solver': xreport,
        },
        'assumptions': getattr(mod, 'ASSUMPTIONS', []),
        'wall_s': round(wall, 2),
        'violations': violations_reported,
    }
    evdir = os.environ.get('VERIF_EVIDENCE_DIR') or os.path.join(ROOT, 'evidence')
    os.makedirs(evdir, exist_ok=True)
    with open(os.path.join(evdir, '%s.json' % pid), 'w') as fh:
        json.dump(ev, fh, indent=1, default=str)
    print('%s %s: levels=%s structures=%d paths=%d obligations=%d discharged=%d unknown=%d '
          'solver_calls=%d solver_s=%.1f wall=%.1fs exit=%d' % (
              pid, tier, [(lr['level'], 'full' if lr['exhaustive'] else 'partial') for lr in level_reports],
              ev['coverage']['structures_enumerated'], st['paths'], st['obligations'], st['discharged'],
              st['unknown'], st['solver_calls'], st['solver_s'], wall, code))
    return code
