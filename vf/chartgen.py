"""Statecharts as solver variables (DESIGN §1.3, §2).

The well-formedness formula W1..W9 is asserted in z3 over bounded integer arrays; every model
is one well-formed chart.  Models are enumerated by the solver (model-guided AllSAT, no
accumulating blocking clauses) in two stages: skeletons (parent/kind arrays) are the shards,
initial/memory choices and transitions are enumerated per skeleton inside the workers.
Charts are then built through the real public model API of /repo.
"""
try:   # concrete replays run without z3
    import z3
except Exception:   # pragma: no cover
    z3 = None

BASIC, COMPOUND, ORTH, FINAL, SH, DH = range(6)
KIND_NAMES = ['basic', 'compound', 'orthogonal', 'final', 'shallow', 'deep']
EVENTS = [None, 'a', 'b', 'c', 'd', 'e', 'f', 'g']


# ------------------------------------------------------------------------------- AllSAT
def all_smt(s, terms):
    """enumerate all models of s projected on `terms` (z3 idiom: split on the last model)"""
    terms = list(terms)

    def rec(ts):
        if s.check() == z3.sat:
            m = s.model()
            vals = [m.eval(t, model_completion=True) for t in terms]
            yield [v.as_long() for v in vals]
            cur = [m.eval(t, model_completion=True) for t in ts]
            for i in range(len(ts)):
                s.push()
                s.add(ts[i] != cur[i])
                for j in range(i):
                    s.add(ts[j] == cur[j])
                yield from rec(ts[i:])
                s.pop()
    yield from rec(terms)


# ------------------------------------------------------------------------------- constraints
def _anc_table(n, par):
    """anc[(i,j)]: j is a proper ancestor of i (par may hold z3 terms or ints)"""
    anc = {}
    for i in range(n):
        for j in range(n):
            if j >= i:
                anc[(i, j)] = False
            else:
                alts = [par[i] == j] + [z3.And(par[i] == k, anc[(k, j)]) for k in range(j + 1, i)
                                        if anc[(k, j)] is not False]
                anc[(i, j)] = z3.simplify(z3.Or(alts)) if len(alts) > 1 else alts[0]
    return anc


def _tobool(x):
    if x is True or x is False:
        return z3.BoolVal(x)
    return x


def skeleton_constraints(s, n, kinds, require_history=False, max_depth=None):
    par = [None] + [z3.Int('par%d' % i) for i in range(1, n)]
    kind = [z3.Int('kind%d' % i) for i in range(n)]
    for i in range(1, n):
        s.add(par[i] >= 0, par[i] < i)
    for i in range(n):
        s.add(z3.Or([kind[i] == k for k in kinds]))
    if n == 1:
        s.add(kind[0] == BASIC)
    else:
        s.add(z3.Or(kind[0] == COMPOUND, kind[0] == ORTH))                      # W2

    def haschild(i):
        return z3.Or([par[j] == i for j in range(i + 1, n)]) if i + 1 < n else z3.BoolVal(False)
    for i in range(n):
        comp = z3.Or(kind[i] == COMPOUND, kind[i] == ORTH)
        s.add(comp == haschild(i))                                               # W3
        for j in range(i + 1, n):
            s.add(z3.Implies(z3.And(par[j] == i, kind[i] == ORTH), kind[j] <= ORTH))   # W5
        if i > 0:
            # W6 (structure part): history under a compound parent with a possible memory sibling
            sib = [z3.And(par[j] == par[i], kind[j] < SH) for j in range(1, n) if j != i]
            s.add(z3.Implies(kind[i] >= SH, z3.And(
                z3.Or(sib) if sib else z3.BoolVal(False),
                z3.Or([z3.And(par[i] == p, kind[p] == COMPOUND) for p in range(i)]))))
        # W4 (structure part): a compound state has a non-history child to be initial
        ch = [z3.And(par[j] == i, kind[j] < SH) for j in range(i + 1, n)]
        s.add(z3.Implies(kind[i] == COMPOUND, z3.Or(ch) if ch else z3.BoolVal(False)))
    if require_history:
        s.add(z3.Or([kind[i] >= SH for i in range(n)]))
    return par, kind


def skeletons(n, kinds, require_history=False):
    s = z3.Solver()
    par, kind = skeleton_constraints(s, n, kinds, require_history)
    terms = [p for p in par if p is not None] + kind
    out = []
    for vals in all_smt(s, terms):
        out.append({'N': n, 'par': [-1] + vals[:n - 1], 'kind': vals[n - 1:]})
    out.sort(key=lambda d: (d['par'], d['kind']))
    return out


def is_anc(par, a, d):
    """a is a proper ancestor of d (concrete arrays)"""
    d = par[d]
    while d >= 0:
        if d == a:
            return True
        d = par[d]
    return False


def split_shards(skels, m, nevents=2, evented_only=False):
    """finer shards for load balance: (skeleton, source and event of the first transition)"""
    out = []
    for sk in skels:
        if m == 0:
            out.append({'skel': sk})
            continue
        for i in range(sk['N']):
            if sk['kind'][i] <= ORTH:
                for e in range(1 if evented_only else 0, nevents + 1):
                    out.append({'skel': sk, 'fix': {'src0': i, 'evt0': e}})
    if m and 0 < len(out) < 150:
        # few big shards leave most workers idle behind a straggler: also fix the target of the first transition
        # (combinations the well-formedness rules exclude are empty shards)
        out = [{'skel': sh['skel'], 'fix': dict(sh['fix'], tgt0=t)} for sh in out for t in range(-1, sh['skel']['N'])]
    return out


def charts(skel, m, nevents=2, targets='free', internal=True, sym_order=True, hist_target=None,
           evented_only=False, fix=None, relax_w7=False):
    """all well-formed completions of a skeleton: init/memory per state and m transitions.
    targets: 'free' (any state or internal) | 'self_none' (self loop or internal)"""
    n, par, kind = skel['N'], skel['par'], skel['kind']
    s = z3.Solver()
    init = [z3.Int('init%d' % i) for i in range(n)]
    for i in range(n):
        if kind[i] == COMPOUND:
            s.add(z3.Or([init[i] == j for j in range(n) if par[j] == i and kind[j] < SH]))      # W4
        elif kind[i] >= SH:
            s.add(z3.Or([init[i] == j for j in range(n) if j != i and par[j] == par[i] and kind[j] < SH]))  # W6
        else:
            s.add(init[i] == -1)
    src = [z3.Int('src%d' % t) for t in range(m)]
    tgt = [z3.Int('tgt%d' % t) for t in range(m)]
    evt = [z3.Int('evt%d' % t) for t in range(m)]
    owners = [i for i in range(n) if kind[i] <= ORTH]
    orth = [o for o in range(n) if kind[o] == ORTH]

    def inside(x, r):       # x (z3 int) is r or a descendant of r
        return z3.Or([x == i for i in range(n) if i == r or is_anc(par, r, i)])
    for t in range(m):
        s.add(z3.Or([src[t] == i for i in owners]))                                              # W8
        s.add(evt[t] >= (1 if evented_only else 0), evt[t] <= nevents)
        if targets == 'self_none':
            s.add(z3.Or(tgt[t] == -1, tgt[t] == src[t]))
        else:
            s.add(tgt[t] >= (-1 if internal else 0), tgt[t] < n)
        for h in range(1, n):
            if kind[h] >= SH and not relax_w7:                                                   # W7
                p = par[h]
                s.add(z3.Implies(tgt[t] == h, z3.Not(inside(src[t], p))))
        for o in orth:                                                                           # W9
            regs = [c for c in range(n) if par[c] == o]
            for a in regs:
                for b in regs:
                    if a != b:
                        s.add(z3.Not(z3.And(inside(src[t], a), inside(tgt[t], b))))
    if hist_target:
        hs = [h for h in range(n) if kind[h] >= SH]
        s.add(z3.Or([tgt[t] == h for t in range(m) for h in hs]) if hs and m else z3.BoolVal(False))
    if sym_order:
        for t in range(m - 1):   # transitions are a multiset: canonical order (C07 permutes it back)
            s.add(z3.Or(src[t] < src[t + 1],
                        z3.And(src[t] == src[t + 1], evt[t] < evt[t + 1]),
                        z3.And(src[t] == src[t + 1], evt[t] == evt[t + 1], tgt[t] <= tgt[t + 1])))
    for k, v in (fix or {}).items():
        s.add(z3.Int(k) == v)
    terms = init + src + tgt + evt
    for vals in all_smt(s, terms):
        yield {'N': n, 'par': par, 'kind': kind, 'init': vals[:n],
               'tr': [[vals[n + t], vals[n + m + t], vals[n + 2 * m + t]] for t in range(m)]}


# ------------------------------------------------------------------------------- larger hand-written charts
# a plant with two regions: a production line whose job has a deep history state, and an oven with nested states;
# the whole plant can be left for maintenance and resumed through the history state
PLANT = {'N': 14, 'names': ['root', 'plant', 'maint', 'line', 'idle', 'job', 'jobH', 'cut', 'weld', 'oven', 'warm', 'ramp',
                            'hold', 'off'],
         'par': [-1, 0, 0, 1, 3, 3, 5, 5, 5, 1, 9, 10, 10, 9],
         'kind': [COMPOUND, ORTH, BASIC, COMPOUND, BASIC, COMPOUND, DH, BASIC, BASIC, COMPOUND, COMPOUND, BASIC, BASIC, BASIC],
         'init': [1, -1, -1, 4, -1, 7, 7, -1, -1, 10, 11, -1, -1, -1],
         'tr': [[4, 5, 1], [7, 8, 2], [5, 4, 3], [4, 6, 4], [11, 12, 5], [10, 13, 6], [1, 2, 7], [2, 6, 4], [2, 1, 1]]}
# the same with a shallow history state
PLANT_S = dict(PLANT, kind=[COMPOUND, ORTH, BASIC, COMPOUND, BASIC, COMPOUND, SH, BASIC, BASIC, COMPOUND, COMPOUND, BASIC,
                            BASIC, BASIC])
FIXED = {'plant': PLANT, 'plant_s': PLANT_S}


# ------------------------------------------------------------------------------- naming
def names_for(n, scheme):
    if scheme == 'id':
        return ['s%d' % i for i in range(n)]
    if scheme == 'rev':
        return ['n%d' % (9 - i) for i in range(n)]
    if scheme == 'mix':
        perm = [5, 2, 8, 1, 6, 3, 9, 0, 7, 4]
        return ['m%d' % perm[i] for i in range(n)]
    raise ValueError(scheme)


# ------------------------------------------------------------------------------- chart model
class CM:
    """concrete view of a generated chart for the reference semantics (independent of sismic)"""

    def __init__(self, chart, naming='id'):
        self.n = chart['N']
        self.par = chart['par']
        self.kind = chart['kind']
        self.init = chart['init']
        self.tr = chart['tr']
        self.names = chart.get('names') or names_for(self.n, naming)
        self.idx = {nm: i for i, nm in enumerate(self.names)}
        self.children = [[j for j in range(self.n) if self.par[j] == i] for i in range(self.n)]
        self.depth = [0] * self.n
        for i in range(self.n):
            self.depth[i] = 1 if self.par[i] < 0 else self.depth[self.par[i]] + 1

    def ancestors(self, i):
        out = []
        i = self.par[i]
        while i >= 0:
            out.append(i)
            i = self.par[i]
        return out

    def is_anc(self, a, d):
        return a in self.ancestors(d)

    def descendants(self, i):
        return [j for j in range(self.n) if self.is_anc(i, j)]

    def lca_strict(self, a, b):
        """deepest state that is a proper ancestor of both"""
        aa = self.ancestors(a)
        for x in self.ancestors(b):
            if x in aa:
                return x
        return -1

    def name(self, i):
        return None if i is None or i < 0 else self.names[i]

    def legal(self, conf):
        """None if the set of names is a legal configuration, else a reason string"""
        cs = {self.idx[c] for c in conf}
        if not cs:
            return None
        if 0 not in cs:
            return 'root inactive'
        for s in sorted(cs):
            p = self.par[s]
            if p >= 0 and p not in cs:
                return 'parent of %s inactive' % self.names[s]
            act = [c for c in self.children[s] if c in cs]
            k = self.kind[s]
            if k == COMPOUND and len(act) != 1:
                return 'compound %s has %d active children' % (self.names[s], len(act))
            if k == ORTH and len(act) != len(self.children[s]):
                return 'orthogonal %s has %d of %d children active' % (
                    self.names[s], len(act), len(self.children[s]))
            if k >= SH:
                return 'history state %s active' % self.names[s]
            if k in (BASIC, FINAL) and act:
                return 'leaf %s has active children' % self.names[s]
        return None

    def initial_config(self):
        """default-entry closure from the root (reference, from the init[] array)"""
        out, todo = [], [0]
        while todo:
            s = todo.pop()
            out.append(s)
            if self.kind[s] == COMPOUND:
                todo.append(self.init[s])
            elif self.kind[s] == ORTH:
                todo.extend(self.children[s])
        return sorted(out)

    def describe(self):
        sts = ['%s:%s<%s%s' % (self.names[i], KIND_NAMES[self.kind[i]][:4], self.name(self.par[i]),
                               ('' if self.init[i] < 0 else ' init=' + self.names[self.init[i]]))
               for i in range(self.n)]
        trs = ['%s-%s->%s' % (self.names[s], EVENTS[e], self.name(t)) for s, t, e in self.tr]
        return {'states': sts, 'transitions': trs}


# ------------------------------------------------------------------------------- build
def movable(chart):
    """index of a composite state at depth >= 3 (its parent is not the root), or None"""
    cm = CM(chart)
    for i in range(cm.n):
        if cm.depth[i] >= 3 and cm.kind[i] in (COMPOUND, ORTH) and cm.kind[0] in (COMPOUND, ORTH):
            return i
    return None


def constructions(chart):
    """the ways a chart of this shape can be put together through the public editing API: directly (None), with one
    composite state moved into place together with its content (its index), or with every deeper state moved
    into place one by one ('all')"""
    out = [None]
    if any(p > 0 for p in chart['par']) and chart['kind'][0] in (COMPOUND, ORTH):
        out.append('all')
    mv = movable(chart)
    if mv is not None:
        out.append(mv)
    return out


def build(chart, naming='id', code=None, order=None, tr_order=None, name='g', preamble=None,
          priorities=None, moved=None):
    """construct the chart through the real public model API.
    code(kind, ident) -> code string or None; kind in 'entry','exit' (ident = state index),
    'guard','action' (ident = transition index).  Returns (statechart, [Transition])."""
    from sismic.model import (Statechart, CompoundState, BasicState, OrthogonalState, FinalState,
                              ShallowHistoryState, DeepHistoryState, Transition)
    cm = CM(chart, naming)
    code = code or (lambda kind, ident: None)
    sc = Statechart(name, preamble=preamble)
    idxs = list(range(cm.n)) if order is None else list(order)
    late = []
    for i in idxs:
        k, nm = cm.kind[i], cm.names[i]
        pn = None if cm.par[i] < 0 else cm.names[cm.par[i]]
        if moved == 'all':
            # editing construction: every state below depth 2 is first attached under the root and moved into
            # place top-down after a warm-up run (history states stay put when the root cannot own them)
            if cm.par[i] > 0 and (cm.kind[0] == COMPOUND or k < SH) and cm.kind[0] in (COMPOUND, ORTH):
                pn = cm.names[0]
                late.append(i)
        elif moved is not None and i == moved:
            pn = cm.names[0]        # first attached under the root, moved to its place after a warm-up run
            late.append(i)
        en, ex = code('entry', i), code('exit', i)
        if k == BASIC:
            st = BasicState(nm, on_entry=en, on_exit=ex)
        elif k == COMPOUND:
            st = CompoundState(nm, initial=cm.names[cm.init[i]], on_entry=en, on_exit=ex)
        elif k == ORTH:
            st = OrthogonalState(nm, on_entry=en, on_exit=ex)
        elif k == FINAL:
            st = FinalState(nm, on_entry=en, on_exit=ex)
        elif k == SH:
            st = ShallowHistoryState(nm, on_entry=en, on_exit=ex, memory=cm.names[cm.init[i]])
        else:
            st = DeepHistoryState(nm, on_entry=en, on_exit=ex, memory=cm.names[cm.init[i]])
        sc.add_state(st, pn)
    trs = [None] * len(cm.tr)
    tidx = list(range(len(cm.tr))) if tr_order is None else list(tr_order)
    for t in tidx:
        s, tg, e = cm.tr[t]
        tr = Transition(cm.names[s], None if tg < 0 else cm.names[tg], event=EVENTS[e],
                        guard=code('guard', t), action=code('action', t),
                        priority=None if (priorities is None or late) else priorities[t])
        sc.add_transition(tr)
        trs[t] = tr
    if late:
        from sismic.interpreter import Interpreter
        from sismic.model import CompoundState as _C, HistoryStateMixin as _H
        # the temporary shape must itself be a runnable chart: no state declares as initial a state that is not
        # (yet) its child (default entry into a non-child never stabilises)
        for i in range(cm.n):
            st = sc.state_for(cm.names[i])
            if isinstance(st, _C) and st.initial is not None and sc.parent_for(st.initial) != st.name:
                st.initial = None
        try:    # the chart is used (depths, configurations are computed) before it is edited into its final shape
            warm = Interpreter(sc, initial_context={'G': lambda *a: False, 'A': lambda *a: None, 'P': lambda *a: None})
            warm.execute_once()
            warm.queue('a').execute_once()
        except Exception:
            pass
        def look():     # public queries a tool may make on a chart under construction (before and between the edits)
            for nm in cm.names:
                sc.depth_for(nm), sc.ancestors_for(nm), sc.descendants_for(nm), sc.children_for(nm), sc.parent_for(nm)
                sc.least_common_ancestor(nm, cm.names[-1])
        look()
        for i in sorted(late, key=lambda i: (cm.depth[i], i)):
            sc.move_state(cm.names[i], cm.names[cm.par[i]])
            look()
        for i in range(cm.n):           # move_state resets initial/memory that pointed to the moved state
            st = sc.state_for(cm.names[i])
            if isinstance(st, _C):
                st.initial = cm.names[cm.init[i]] if cm.init[i] >= 0 else None
            elif isinstance(st, _H):
                st.memory = cm.names[cm.init[i]]
        if priorities is not None:      # (possibly symbolic) priorities play no part in the warm-up run
            for t, p in zip(trs, priorities):
                t.priority = p
    return sc, trs, cm
