"""CrossHair kernels for C11 (symbolic unicode strings, bug hunting only).

Each function round-trips one element through the real export_to_dict/import_from_dict with symbolic
`str`/`int` fields.  Preconditions state "valid code": non-blank strings; event names without surrounding
whitespace.  A counterexample printed by CrossHair is replayed concretely by the C11 check before it is
reported; "Not confirmed"/timeouts are reported as inconclusive, never as a pass.
"""
from sismic.io.datadict import export_to_dict, import_from_dict
from sismic.model import Statechart, CompoundState, BasicState, Transition


def _chart():
    sc = Statechart('x')
    sc.add_state(CompoundState('r', initial='A'), None)
    sc.add_state(BasicState('A'), 'r')
    sc.add_state(BasicState('B'), 'r')
    return sc


def transition_fields_survive(event: str, guard: str, action: str, priority: int) -> bool:
    """
    pre: 0 < len(event) <= 3 and 0 < len(guard) <= 3 and 0 < len(action) <= 3
    pre: event == event.strip() and guard.strip() != '' and action.strip() != ''
    post: __return__
    """
    sc = _chart()
    sc.add_transition(Transition('A', 'B', event=event, guard=guard, action=action, priority=priority))
    t2 = import_from_dict(export_to_dict(sc)).transitions[0]
    return (t2.event == event and t2.guard == guard.strip() and t2.action == action.strip()
            and t2.priority == priority)


def state_code_survives(on_entry: str, on_exit: str, pre: str, inv: str) -> bool:
    """
    pre: 0 < len(on_entry) <= 3 and 0 < len(on_exit) <= 3 and 0 < len(pre) <= 3 and 0 < len(inv) <= 3
    pre: on_entry.strip() != '' and on_exit.strip() != '' and pre.strip() != '' and inv.strip() != ''
    post: __return__
    """
    sc = _chart()
    st = BasicState('C', on_entry=on_entry, on_exit=on_exit)
    st.preconditions.append(pre)
    st.invariants.append(inv)
    sc.add_state(st, 'r')
    s2 = import_from_dict(export_to_dict(sc)).state_for('C')
    return (s2.on_entry == on_entry.strip() and s2.on_exit == on_exit.strip()
            and s2.preconditions == [pre.strip()] and s2.invariants == [inv.strip()])
