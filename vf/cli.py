"""command line: python -m vf.cli <ID> quick|thorough   |   python -m vf.cli --replay <file>"""
import os
import sys


def main(argv):
    if len(argv) >= 2 and argv[0] == '--replay':
        from .runner import do_replay
        return do_replay(argv[1])
    if len(argv) >= 3 and argv[1] == '--replay':
        from .runner import do_replay
        return do_replay(argv[2])
    if len(argv) < 2:
        print(__doc__)
        return 2
    pid, tier = argv[0].upper(), argv[1]
    tier = os.environ.get('VERIF_TIER', tier)
    seed = int(os.environ.get('VERIF_SEED', '0') or 0)
    from .runner import run_check
    return run_check('vf.props.%s' % pid.lower(), tier, seed)


if __name__ == '__main__':
    try:
        rc = main(sys.argv[1:])
    except SystemExit:
        raise
    except BaseException:     # never let a crash of the machinery look like a verdict
        import traceback
        traceback.print_exc()
        print('HARNESS-ERROR unhandled exception in the check machinery')
        rc = 3
    sys.exit(rc)
