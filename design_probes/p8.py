import sys, time
sys.path.insert(0, '/verif/design_probes')
from mini import *
import sched as S
import sismic.runner.runner as R
R.threading = S.ShimThreading; R.time = S.ShimTime
from sismic.model import Statechart, CompoundState, BasicState, Transition
from sismic.interpreter import Interpreter
MAXP = int(sys.argv[1])
def chart():
    sc = Statechart('f'); sc.add_state(CompoundState('r', initial='A'), None); sc.add_state(BasicState('A'), 'r'); sc.add_state(BasicState('B'), 'r')
    sc.add_transition(Transition('A', 'B', event='e')); sc.add_transition(Transition('B', 'A', event='e'))
    return sc
stats = {'deadlock': 0}
def harness(g):
    it = Interpreter(chart())
    executed = []; reported = []
    orig = it.execute_once
    def eo():
        s = orig()
        if s: executed.append(s)
        return s
    it.execute_once = eo
    class Run(R.AsyncRunner):
        def after_execute(self, steps): reported.extend(steps)
    n = [0]
    def chooser(k):
        n[0] += 1
        return choice(g, 'sch%d' % n[0], k)
    S.SCHED = sch = S.Sched(chooser, max_preempt=MAXP)
    S.ShimThread.n = 0
    r = Run(it, interval=0)
    res = True
    try:
        r.start()
        it.queue('e')
        sch.yield_point('client')
        it.queue('e')
        sch.yield_point('client')
        r.stop()
        if r.running: res = 'running after stop'
        elif [id(s) for s in executed] != [id(s) for s in reported]: res = ('unreported', len(executed), len(reported))
    except S.Deadlock as e:
        res = ('deadlock', str(e))
    finally:
        sch.shutdown(); S.SCHED = None
        r.__class__.__del__ = lambda self: None
    return res
import faulthandler; faulthandler.dump_traceback_later(20, exit=True)
g = Engine(); t0 = time.time()
paths, res = g.explore(harness, max_paths=200000)
print('max_preempt', MAXP, 'paths', paths, 'viol', [(r, sorted((str(d), m[d]) for d in m.decls())) for r, m in res][:1], 'time %.1fs' % (time.time() - t0))
