import z3, sys, time, itertools
BASIC, COMPOUND, ORTH, FINAL, SH, DH = range(6)
def wf(n, allow_hist=True, allow_final=True):
    s = z3.Solver()
    par = [None] + [z3.Int('par%d' % i) for i in range(1, n)]
    kind = [z3.Int('kind%d' % i) for i in range(n)]
    init = [z3.Int('init%d' % i) for i in range(n)]   # initial child (compound) / memory (history); -1 otherwise
    for i in range(1, n):
        s.add(par[i] >= 0, par[i] < i)
    for i in range(n):
        s.add(kind[i] >= 0, kind[i] <= DH)
        if not allow_hist: s.add(kind[i] < SH)
        if not allow_final: s.add(kind[i] != FINAL)
    s.add(z3.Or(kind[0] == COMPOUND, kind[0] == ORTH))
    def haschild(i): return z3.Or([par[j] == i for j in range(i + 1, n)]) if i + 1 < n else z3.BoolVal(False)
    for i in range(n):
        comp = z3.Or(kind[i] == COMPOUND, kind[i] == ORTH)
        s.add(comp == haschild(i))   # composite iff has children
        for j in range(i + 1, n):
            # child j of i
            c = par[j] == i
            s.add(z3.Implies(z3.And(c, kind[i] == ORTH), z3.Or(kind[j] == BASIC, kind[j] == COMPOUND, kind[j] == ORTH)))
        # initial: compound -> init is a non-history child ; history -> memory is a sibling non-history
        opts = []
        for j in range(i + 1, n):
            opts.append(z3.And(init[i] == j, par[j] == i, kind[j] < SH))
        s.add(z3.Implies(kind[i] == COMPOUND, z3.Or(opts) if opts else False))
        if i > 0:
            mopts = []
            for j in range(1, n):
                if j != i:
                    mopts.append(z3.And(init[i] == j, par[j] == par[i], kind[j] < SH))
            s.add(z3.Implies(kind[i] >= SH, z3.And(z3.Or(mopts) if mopts else False,
                                                    z3.Or([z3.And(par[i] == p, kind[p] == COMPOUND) for p in range(i)]))))
        s.add(z3.Implies(z3.And(kind[i] != COMPOUND, kind[i] < SH), init[i] == -1))
        # at most one history state per compound? (not required)
    # symmetry: siblings ordering canonical -> children of same parent sorted by kind? skip
    return s, par[1:] + kind + init
def count(n, **kw):
    s, vs = wf(n, **kw)
    c = 0; t0 = time.time()
    while s.check() == z3.sat:
        m = s.model(); c += 1
        s.add(z3.Or([v != m.eval(v, model_completion=True) for v in vs]))
        if c >= 200000: break
    return c, time.time() - t0
for n in range(2, int(sys.argv[1]) + 1):
    print(n, 'all', count(n), 'nohist', count(n, allow_hist=False), 'nohist-nofinal', count(n, allow_hist=False, allow_final=False), flush=True)
