"""Throwaway prototype: proxy-object dynamic symbolic execution with z3 (DFS by re-execution)."""
import z3, time

class Infeasible(BaseException): pass

class Engine:
    def __init__(self):
        self.solver = z3.Solver()
        self.prefix = []      # list of decisions to replay: ('b', bool) or ('v', expr_id, value, excluded tuple)
        self.trace = []       # decisions taken in current run: [kind, taken, alternatives_left]
        self.pos = 0
        self.nvars = 0
        self.checks = 0
    def fresh_bool(self, name): return SymBool(self, z3.Bool(name))
    def fresh_int(self, name): return SymInt(self, z3.Int(name))
    def assume(self, c):
        if isinstance(c, SymBool): self.solver.add(c.e)
        elif not c: raise Infeasible()
    def _check(self, *a):
        self.checks += 1
        return self.solver.check(*a) == z3.sat
    def branch(self, cond):
        """cond: z3 BoolRef; returns concrete bool for this path."""
        cond = z3.simplify(cond)
        if z3.is_true(cond): return True
        if z3.is_false(cond): return False
        if self.pos < len(self.prefix):
            d = self.prefix[self.pos]; self.pos += 1
            assert d[0] == 'b'
            val = d[1]
            self.solver.add(cond if val else z3.Not(cond))
            self.trace.append(['b', val, d[2]])
            return val
        t = self._check(cond)
        f = self._check(z3.Not(cond))
        if t and f:
            self.pos += 1
            self.trace.append(['b', True, True])   # alt False pending
            self.solver.add(cond)
            return True
        if t:
            self.pos += 1; self.trace.append(['b', True, False]); self.solver.add(cond); return True
        if f:
            self.pos += 1; self.trace.append(['b', False, False]); self.solver.add(z3.Not(cond)); return False
        raise Infeasible()
    def realize(self, expr):
        expr = z3.simplify(expr)
        if z3.is_int_value(expr): return expr.as_long()
        key = expr.get_id()
        if key in self.rcache: return self.rcache[key]
        if self.pos < len(self.prefix):
            d = self.prefix[self.pos]; self.pos += 1
            assert d[0] == 'v'
            excluded = d[2]
            if d[1] is not None:
                self.solver.add(expr == d[1]); self.trace.append(['v', d[1], excluded]); self.rcache[key] = d[1]
                return d[1]
        else:
            self.pos += 1
            excluded = ()
        for v in excluded: self.solver.add(expr != v)
        if not self._check(): raise Infeasible()
        v = self.solver.model().eval(expr, model_completion=True).as_long()
        self.solver.add(expr == v)
        self.trace.append(['v', v, excluded]); self.rcache[key] = v
        return v
    def explore(self, fn, max_paths=10**9):
        paths = 0; results = []
        self.prefix = []
        while True:
            self.solver.push(); self.trace = []; self.pos = 0; self.rcache = {}
            try:
                r = fn(self)
                paths += 1
                if r is not True:
                    m = None
                    if self._check(): m = self.solver.model()
                    results.append((r, m))
                    self.solver.pop()
                    return paths, results
            except Infeasible:
                pass
            self.solver.pop()
            # backtrack
            tr = self.trace
            while tr:
                d = tr[-1]
                if d[0] == 'b' and d[2]:
                    tr[-1] = ['b', False, False]; break
                if d[0] == 'v':
                    tr[-1] = ['v', None, d[2] + (d[1],)]
                    # value decisions: try next value; exhaustion detected by Infeasible at realize
                    break
                tr.pop()
            if not tr: return paths, results
            # convert to prefix
            self.prefix = [('b', d[1], d[2]) if d[0] == 'b' else ('v', d[1], d[2]) for d in tr]
            if paths >= max_paths: return paths, results

class SymBool:
    __slots__ = ('g', 'e')
    def __init__(self, g, e): self.g = g; self.e = e
    def __bool__(self): return self.g.branch(self.e)
    def __eq__(self, o): return SymBool(self.g, self.e == _b(o))
    def __ne__(self, o): return SymBool(self.g, self.e != _b(o))
    def __hash__(self): return hash(bool(self))
def _b(o): return o.e if isinstance(o, SymBool) else bool(o)
def _i(o): return o.e if isinstance(o, SymInt) else o
class SymInt:
    __slots__ = ('g', 'e')
    def __init__(self, g, e): self.g = g; self.e = e
    def __lt__(self, o): return SymBool(self.g, self.e < _i(o))
    def __le__(self, o): return SymBool(self.g, self.e <= _i(o))
    def __gt__(self, o): return SymBool(self.g, self.e > _i(o))
    def __ge__(self, o): return SymBool(self.g, self.e >= _i(o))
    def __eq__(self, o):
        if o is None: return False
        return SymBool(self.g, self.e == _i(o))
    def __ne__(self, o):
        if o is None: return True
        return SymBool(self.g, self.e != _i(o))
    def __add__(self, o): return SymInt(self.g, self.e + _i(o))
    __radd__ = __add__
    def __sub__(self, o): return SymInt(self.g, self.e - _i(o))
    def __rsub__(self, o): return SymInt(self.g, _i(o) - self.e)
    def __neg__(self): return SymInt(self.g, -self.e)
    def __index__(self): return self.g.realize(self.e)
    __int__ = __index__
    def __hash__(self): return hash(self.g.realize(self.e))
    def __bool__(self): return self.g.branch(self.e != 0)
    def __repr__(self): return 'SymInt(%s)' % self.e

class SymReal(SymInt):
    __slots__ = ()
    def __add__(self, o): return SymReal(self.g, self.e + _i(o))
    __radd__ = __add__
    def __sub__(self, o): return SymReal(self.g, self.e - _i(o))
    def __rsub__(self, o): return SymReal(self.g, _i(o) - self.e)
    def __mul__(self, o): return SymReal(self.g, self.e * _i(o))
    __rmul__ = __mul__
    def __neg__(self): return SymReal(self.g, -self.e)

def fresh_real(g, name): return SymReal(g, z3.Real(name))
def choice(g, name, n):
    v = SymInt(g, z3.Int(name)); g.assume(v >= 0); g.assume(v < n); return int(v)
def prove(g, cond):
    """returns True if cond holds for all values under path condition"""
    if isinstance(cond, SymBool):
        g.checks += 1
        return g.solver.check(z3.Not(cond.e)) == z3.unsat
    return bool(cond)
