"""Probe: symbolic well-formed chart (SMT-constrained), real Interpreter, C02 legality after init + K events."""
import sys, time, z3
sys.path.insert(0, '/verif/design_probes')
from mini import *
from sismic.model import (Statechart, CompoundState, BasicState, OrthogonalState, FinalState,
                          ShallowHistoryState, DeepHistoryState, Transition)
from sismic.interpreter import Interpreter
BASIC, COMPOUND, ORTH, FINAL, SH, DH = range(6)
N = int(sys.argv[1]); M = int(sys.argv[2]); K = int(sys.argv[3])

def constraints(s, n, m):
    par = [None] + [z3.Int('par%d' % i) for i in range(1, n)]
    kind = [z3.Int('kind%d' % i) for i in range(n)]
    init = [z3.Int('init%d' % i) for i in range(n)]
    for i in range(1, n): s.add(par[i] >= 0, par[i] < i)
    for i in range(n): s.add(kind[i] >= 0, kind[i] <= DH)
    s.add(z3.Or(kind[0] == COMPOUND, kind[0] == ORTH))
    def haschild(i): return z3.Or([par[j] == i for j in range(i + 1, n)]) if i + 1 < n else z3.BoolVal(False)
    anc = {}  # anc[(i,j)]: j is a proper ancestor of i
    for i in range(n):
        for j in range(n):
            if j >= i: anc[(i, j)] = z3.BoolVal(False)
            else: anc[(i, j)] = z3.Or(par[i] == j, z3.Or([z3.And(par[i] == k, anc[(k, j)]) for k in range(j + 1, i)]))
    for i in range(n):
        comp = z3.Or(kind[i] == COMPOUND, kind[i] == ORTH)
        s.add(comp == haschild(i))
        for j in range(i + 1, n):
            s.add(z3.Implies(z3.And(par[j] == i, kind[i] == ORTH), kind[j] <= ORTH))
        opts = [z3.And(init[i] == j, par[j] == i, kind[j] < SH) for j in range(i + 1, n)]
        s.add(z3.Implies(kind[i] == COMPOUND, z3.Or(opts) if opts else False))
        if i > 0:
            mopts = [z3.And(init[i] == j, par[j] == par[i], kind[j] < SH) for j in range(1, n) if j != i]
            s.add(z3.Implies(kind[i] >= SH, z3.And(z3.Or(mopts) if mopts else False,
                                                    z3.Or([z3.And(par[i] == p, kind[p] == COMPOUND) for p in range(i)]))))
        s.add(z3.Implies(z3.And(kind[i] != COMPOUND, kind[i] < SH), init[i] == -1))
    src = [z3.Int('src%d' % t) for t in range(m)]
    tgt = [z3.Int('tgt%d' % t) for t in range(m)]
    evt = [z3.Int('evt%d' % t) for t in range(m)]
    for t in range(m):
        s.add(src[t] >= 0, src[t] < n, tgt[t] >= -1, tgt[t] < n, evt[t] >= 0, evt[t] <= 2)
        s.add(z3.Or([z3.And(src[t] == i, kind[i] <= ORTH) for i in range(n)]))
        s.add(z3.Implies(tgt[t] == -1, evt[t] > 0))  # internal needs event (guards symbolic otherwise)
        # history target entered from outside its parent
        for h in range(1, n):
            for p in range(h):
                s.add(z3.Implies(z3.And(tgt[t] == h, kind[h] >= SH, par[h] == p),
                                 z3.And(src[t] != p, z3.Not(z3.Or([z3.And(src[t] == i, anc[(i, p)]) for i in range(n)])))))
        # no crossing between sibling regions of one orthogonal state
        for o in range(n):
            for a in range(o + 1, n):
                for b in range(o + 1, n):
                    if a == b: continue
                    def inside(x, r):  # x is r or descendant of r
                        return z3.Or(x == r, z3.Or([z3.And(x == i, anc[(i, r)]) for i in range(r + 1, n)]))
                    s.add(z3.Implies(z3.And(kind[o] == ORTH, par[a] == o, par[b] == o),
                                     z3.Not(z3.And(inside(src[t], a), inside(tgt[t], b)))))
    # symmetry: transitions ordered
    for t in range(m - 1):
        s.add(z3.Or(src[t] < src[t + 1], z3.And(src[t] == src[t + 1], evt[t] <= evt[t + 1])))
    return par, kind, init, src, tgt, evt

def build(n, m, val):
    par, kind, init, src, tgt, evt = VARS
    R = val
    P = [None] + [R(par[i]) for i in range(1, n)]
    Kd = [R(kind[i]) for i in range(n)]
    I = [R(init[i]) for i in range(n)]
    names = ['s%d' % i for i in range(n)]
    sc = Statechart('x')
    for i in range(n):
        k = Kd[i]; nm = names[i]; pn = None if i == 0 else names[P[i]]
        if k == BASIC: st = BasicState(nm)
        elif k == COMPOUND: st = CompoundState(nm, initial=names[I[i]])
        elif k == ORTH: st = OrthogonalState(nm)
        elif k == FINAL: st = FinalState(nm)
        elif k == SH: st = ShallowHistoryState(nm, memory=names[I[i]])
        else: st = DeepHistoryState(nm, memory=names[I[i]])
        sc.add_state(st, pn)
    ts = []
    for t in range(m):
        sx, tx, ex = R(src[t]), R(tgt[t]), R(evt[t])
        tr = Transition(names[sx], None if tx < 0 else names[tx], event=[None, 'a', 'b'][ex], guard='G(%d)' % t)
        sc.add_transition(tr); ts.append(tr)
    return sc, ts

def legal(sc, conf):
    cs = set(conf)
    if not cs: return True
    if sc.root not in cs: return 'noroot'
    for s in cs:
        st = sc.state_for(s)
        p = sc.parent_for(s)
        if p is not None and p not in cs: return 'orphan %s' % s
        ch = sc.children_for(s)
        act = [c for c in ch if c in cs]
        if isinstance(st, CompoundState):
            if len(act) != 1: return 'compound %s has %d active children' % (s, len(act))
        elif isinstance(st, OrthogonalState):
            if len(act) != len(ch): return 'orthogonal %s has %d/%d active' % (s, len(act), len(ch))
        if isinstance(st, (ShallowHistoryState, DeepHistoryState)): return 'history active'
    return True

def harness(g):
    n = N
    sc, ts = build(n, M, CUR)
    gv = {}
    step_no = [0]
    def G(i):
        key = (i, step_no[0])
        if key not in gv: gv[key] = g.fresh_bool('g%d_%d' % key)
        return gv[key]
    it = Interpreter(sc, initial_context={'G': G})
    it.execute_once()
    r = legal(sc, it.configuration)
    if r is not True: return ('init', r)
    for k in range(K):
        step_no[0] = k
        e = choice(g, 'ev%d' % k, 2)
        it.queue('ab'[e])
        try:
            it.execute_once()
        except Exception as ex:
            if type(ex).__name__ in ('NonDeterminismError', 'ConflictingTransitionsError'): return True
            return ('exc', repr(ex))
        r = legal(sc, it.configuration)
        if r is not True: return ('step%d' % k, r, it.configuration)
    return True


S = z3.Solver()
VARS = constraints(S, N, M)
flat = [v for grp in VARS for v in grp if v is not None]
viol = []; charts = 0; paths = 0; t0 = time.time(); tA = 0
g = Engine()
while True:
    ta = time.time()
    if S.check() != z3.sat: break
    m = S.model()
    vals = {v.get_id(): m.eval(v, model_completion=True).as_long() for v in flat}
    S.add(z3.Or([v != vals[v.get_id()] for v in flat]))
    tA += time.time() - ta
    CUR = lambda e: vals[e.get_id()]
    charts += 1
    def h(g):
        r = harness(g)
        if r is not True: viol.append(r)
        return True
    p, _ = g.explore(h)
    paths += p
dt = time.time() - t0
print('N', N, 'M', M, 'K', K, 'charts', charts, 'paths', paths, 'violating', len(viol), 'time %.1fs (allsat %.1fs)' % (dt, tA), '%.0f charts/s' % (charts / dt))
import collections, re
c = collections.Counter(re.sub(r'\d+', '#', str(v[:2])) for v in viol)
for k, n in c.most_common(): print(n, k)
ex = {}
for v in viol:
    k = re.sub(r'\d+', '#', str(v[:2]))
    ex.setdefault(k, v)
for k, v in ex.items(): print(v)
