"""Probe: line-level preemption inside Interpreter._queue_event/_select_event under the scheduler (C20 race)."""
import sys, time
sys.path.insert(0, '/verif/design_probes')
from mini import *
import sched as S
import sismic.runner.runner as R
R.threading = S.ShimThreading; R.time = S.ShimTime
from sismic.model import Statechart, CompoundState, BasicState, Transition, Event
from sismic.interpreter import Interpreter
MAXP = int(sys.argv[1])
TRACED = {'_queue_event', '_select_event'}
def tracer(frame, event, arg):
    if frame.f_code.co_name in TRACED and frame.f_code.co_filename.endswith('interpreter/default.py'):
        def local(frame, event, arg):
            if event == 'line' and S.SCHED is not None and not S.SCHED.killed:
                S.SCHED.yield_point('line:%s:%d' % (frame.f_code.co_name, frame.f_lineno))
            return local
        return local
    return None
_spawn = S.Sched.spawn
def spawn(self, fn, name):
    def wrapped():
        sys.settrace(tracer)
        try: fn()
        finally: sys.settrace(None)
    return _spawn(self, wrapped, name)
S.Sched.spawn = spawn
def chart():
    sc = Statechart('f'); sc.add_state(CompoundState('r', initial='A'), None); sc.add_state(BasicState('A'), 'r')
    return sc
def harness(g):
    it = Interpreter(chart())
    consumed = []
    orig = it.execute_once
    def eo():
        s = orig()
        if s and s.event: consumed.append(s.event.name)
        return s
    it.execute_once = eo
    it.execute_once()                       # initialise before the runner starts
    it.queue(Event('a'), Event('d', delay=5))
    n = [0]
    def chooser(k):
        n[0] += 1
        return choice(g, 'sch%d' % n[0], k)
    S.SCHED = sch = S.Sched(chooser, max_preempt=MAXP); S.ShimThread.n = 0
    r = R.AsyncRunner(it, interval=0)
    res = True
    sys.settrace(tracer)
    try:
        r.start()
        it.queue(Event('c'))                # due now, must be consumable at time 0
        # let the runner run a few cycles
        for _ in range(4): sch.yield_point('client', voluntary=True)
        r.stop()
        q = [(t, e.name) for t, e in it._external_queue]
        if sorted(q) != q: res = ('queue unsorted', q, consumed)
        elif 'c' not in consumed and q and q[0][1] != 'c': res = ('c stuck behind d', q, consumed, [t for t in sch.trace if t[1] != t[2]][-12:], [repr(t.exc) for t in sch.threads])
    except S.Deadlock as e:
        res = ('deadlock', str(e))
    finally:
        sys.settrace(None)
        sch.shutdown(); S.SCHED = None
        r.__class__.__del__ = lambda self: None
    for t in sch.threads:
        if isinstance(t.exc, Infeasible): raise t.exc      # path-steering exception must reach the engine
        if t.exc is not None: return ('thread died', repr(t.exc))
    return res
g = Engine(); t0 = time.time()
paths, res = g.explore(harness, max_paths=100000)
print('max_preempt', MAXP, 'paths', paths, 'time %.1fs' % (time.time() - t0))
for r_, m in res:
    print('VIOLATION', r_, 'trace', g.trace)
