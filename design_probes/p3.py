"""Probe: CrossHair on SimulatedClock with scripted time source."""
import sismic.clock.clock as C

class Src:
    def __init__(self): self.now = 0.0
    def __call__(self): return self.now

def run(ops: int, a1: float, a2: float, a3: float, d1: float, d2: float, d3: float) -> bool:
    """
    pre: 0 <= ops < 125
    pre: a1 >= 0 and a2 >= 0 and a3 >= 0 and d1 >= 0 and d2 >= 0 and d3 >= 0
    pre: a1 < 1000 and a2 < 1000 and a3 < 1000 and d1 < 1000 and d2 < 1000 and d3 < 1000
    post: _
    """
    src = Src()
    old = C.time
    C.time = src
    try:
        clk = C.SimulatedClock()
        last = clk.time
        ok = True
        for k, (a, d) in enumerate(((a1, d1), (a2, d2), (a3, d3))):
            op = (ops // (5 ** k)) % 5
            src.now = src.now + d
            before = clk.time
            if before < last: ok = False
            if op == 0: clk.start()
            elif op == 1: clk.stop()
            elif op == 2: clk.speed = a
            elif op == 3:
                try:
                    clk.time = a
                    if clk.time != a: ok = False
                except ValueError:
                    if not (a < before): ok = False
                    if clk.time != before: ok = False
            after = clk.time
            if after < before: ok = False
            last = after
        return ok
    finally:
        C.time = old
