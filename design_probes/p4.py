"""Probe: CrossHair dict-level round trip of one transition with symbolic str/int fields."""
from typing import Optional
from sismic.model import Statechart, CompoundState, BasicState, Transition
from sismic.io.datadict import export_to_dict, import_from_dict

def rt(event: Optional[str], guard: Optional[str], action: Optional[str], priority: int) -> bool:
    """
    pre: event is None or (0 < len(event) <= 3)
    pre: guard is None or (0 < len(guard) <= 3)
    pre: action is None or (0 < len(action) <= 3)
    post: _
    """
    sc = Statechart('t')
    sc.add_state(CompoundState('root', initial='A'), None)
    sc.add_state(BasicState('A'), 'root')
    sc.add_state(BasicState('B'), 'root')
    t = Transition('A', 'B', event=event, guard=guard, action=action, priority=priority)
    sc.add_transition(t)
    sc2 = import_from_dict(export_to_dict(sc))
    t2 = sc2.transitions[0]
    def norm(x):
        return (x.strip() or None) if x is not None else None
    return (t2.source == 'A' and t2.target == 'B' and t2.priority == priority
            and t2.event == norm(event) and t2.guard == norm(guard) and t2.action == norm(action))
