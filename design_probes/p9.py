"""Probe: drive sismic.bdd steps/environment directly with a behave-like context; execute_steps through behave's registry."""
import types
from behave import step_registry
from behave.model import Step
from behave.parser import parse_steps
from sismic.bdd import steps as S, environment as ENV
from sismic.io import import_from_yaml
from sismic.interpreter import Interpreter
sc = import_from_yaml(filepath='/repo/docs/examples/elevator/elevator.yaml')

class Ctx(types.SimpleNamespace):
    def execute_steps(self, text):
        for st in parse_steps(text):
            m = step_registry.registry.find_match(st)
            assert m is not None, 'undefined step: %r' % st.name
            run_step(self, st, m)
def run_step(ctx, st, match=None):
    match = match or step_registry.registry.find_match(st)
    if match is None: return 'undefined'
    ENV.before_step(ctx, st)
    ctx.table = st.table
    try:
        kwargs = {a.name: a.value for a in match.arguments}
        match.func(ctx, **kwargs); st.status = 'passed'
    except AssertionError as e: st.status = 'failed'
    except Exception as e: st.status = 'error:' + type(e).__name__
    ENV.after_step(ctx, st)
    return st.status
ctx = Ctx(config=types.SimpleNamespace(userdata={'statechart': sc, 'interpreter_klass': Interpreter, 'property_statecharts': [], 'debug_on_error': False}), table=None, feature=None)
ENV.before_scenario(ctx, None)
scenario = '''
Given I do nothing
When I send event floorSelected with floor=4
Then state movingUp is entered
And state movingDown is entered
And variable current equals 4
And variable current equals 3
And state nope is active
When I repeat "I wait 5 seconds" 2 times
Then state movingDown is entered
And expression current == 0 holds
'''
for st in parse_steps(scenario):
    print('%-6s %-50s %s' % (st.keyword, st.name, run_step(ctx, st)))
