def f(a: bool, b: bool, c: bool, d: bool, e: bool, f: bool, g: bool, h: bool) -> int:
    """
    post: _ >= 0
    """
    n = 0
    for x in (a, b, c, d, e, f, g, h):
        if x:
            n += 1
    return n
