from sismic.model import *
from sismic.model import Statechart
from sismic.interpreter import Interpreter
# two enabled transitions on root
sc = Statechart('a'); sc.add_state(CompoundState('r', initial='A'), None); sc.add_state(BasicState('A'), 'r'); sc.add_state(BasicState('B'), 'r')
sc.add_transition(Transition('r', 'A', event='e')); sc.add_transition(Transition('r', 'B', event='e'))
it = Interpreter(sc); it.execute_once(); it.queue('e')
try: it.execute_once(); print('root x2: no error')
except Exception as e: print('root x2:', type(e).__name__, e)
# two enabled transitions on a state whose parent is orthogonal
sc = Statechart('b'); sc.add_state(OrthogonalState('r'), None); sc.add_state(CompoundState('P', initial='A'), 'r'); sc.add_state(BasicState('A'), 'P'); sc.add_state(BasicState('B'), 'P'); sc.add_state(BasicState('Q'), 'r')
sc.add_transition(Transition('Q', 'Q', event='e', action='print("t1")')); sc.add_transition(Transition('Q', 'Q', event='e', action='print("t2")'))
it = Interpreter(sc); it.execute_once(); it.queue('e')
try: s = it.execute_once(); print('same state under orthogonal: no error, fired', len(s.transitions))
except Exception as e: print('same state under orthogonal:', type(e).__name__)
# transition into nested state of an orthogonal region from outside
sc = Statechart('c'); sc.add_state(CompoundState('r', initial='A'), None); sc.add_state(BasicState('A'), 'r'); sc.add_state(OrthogonalState('P'), 'r')
sc.add_state(CompoundState('R1', initial='a'), 'P'); sc.add_state(BasicState('a'), 'R1'); sc.add_state(BasicState('b'), 'R1'); sc.add_state(CompoundState('R2', initial='c'), 'P'); sc.add_state(BasicState('c'), 'R2')
sc.add_transition(Transition('A', 'b', event='e'))
it = Interpreter(sc); it.execute_once(); it.queue('e'); it.execute_once(); print('into region:', it.configuration)
