"""Throwaway prototype: deterministic baton scheduler + threading/time shims; schedule = solver choices."""
import threading as _T, sys
_RealThread, _RealSem = _T.Thread, _T.Semaphore

class Killed(BaseException): pass
class Deadlock(Exception): pass

class LThread:
    def __init__(self, name): self.name = name; self.go = _RealSem(0); self.state = 'ready'; self.waitfor = None; self.exc = None; self.real = None

class Sched:
    def __init__(self, chooser, max_preempt=3):
        self.chooser = chooser; self.threads = []; self.cur = None; self.killed = False
        self.preempts = 0; self.max_preempt = max_preempt; self.trace = []
        main = LThread('main'); main.state = 'ready'; self.threads.append(main); self.cur = main
    def me(self): return self.cur
    def _runnable(self):
        for t in self.threads:
            if t.state == 'blocked' and t.waitfor():
                t.state = 'ready'
        return [t for t in self.threads if t.state == 'ready']
    def _switch_to(self, nxt):
        me = self.cur
        if nxt is me: return
        self.cur = nxt
        nxt.go.release()
        me.go.acquire()
        if self.killed and me.name != 'main': raise Killed()
    def yield_point(self, tag='', voluntary=False):
        if self.killed: raise Killed()
        me = self.cur
        run = self._runnable()
        if me.state != 'ready':
            if not run: raise Deadlock('deadlock at %s: %s' % (tag, [(t.name, t.state) for t in self.threads]))
            nxt = run[0] if len(run) == 1 else run[self.chooser(len(run))]
        else:
            others = [t for t in run if t is not me]
            if not others: return
            if voluntary:
                nxt = others[0] if len(others) == 1 else others[self.chooser(len(others))]
            else:
                if self.preempts >= self.max_preempt: return
                k = self.chooser(len(others) + 1)
                if k == 0: return
                self.preempts += 1
                nxt = others[k - 1]
        self.trace.append((tag, me.name, nxt.name))
        self._switch_to(nxt)
    def block_until(self, pred, tag=''):
        me = self.cur
        if pred(): return
        me.state = 'blocked'; me.waitfor = pred
        self.yield_point(tag)
    def spawn(self, fn, name):
        lt = LThread(name); self.threads.append(lt)
        def body():
            lt.go.acquire()
            try:
                if not self.killed: fn()
            except Killed: pass
            except BaseException as e: lt.exc = e
            lt.state = 'done'
            # hand the baton on
            if not self.killed:
                run = self._runnable()
                if run:
                    nxt = run[0] if len(run) == 1 else run[self.chooser(len(run))]
                    self.cur = nxt; nxt.go.release()
                else:
                    # everyone blocked: wake main with deadlock flag
                    self.deadlock = True
                    m = self.threads[0]; self.cur = m; m.go.release()
            else:
                self._kill_next()
        lt.real = _RealThread(target=body, daemon=True); lt.real.start()
        return lt
    def _kill_next(self):
        for t in self.threads[1:]:
            if t.state != 'done' and not getattr(t, 'kill_sent', False):
                t.kill_sent = True; self.cur = t; t.go.release(); return
        m = self.threads[0]; self.cur = m; m.go.release()
    def shutdown(self):
        """called by main at end of path: kill all unfinished threads"""
        self.killed = True
        pend = [t for t in self.threads[1:] if t.state != 'done']
        if pend:
            self._kill_next()
            self.threads[0].go.acquire()
        for t in self.threads[1:]:
            t.real.join(2)

SCHED = None
class ShimEvent:
    def __init__(self): self._f = False
    def is_set(self):
        if SCHED: SCHED.yield_point('is_set')
        return self._f
    def set(self):
        self._f = True
        if SCHED: SCHED.yield_point('set')
    def clear(self):
        self._f = False
        if SCHED: SCHED.yield_point('clear')
    def wait(self, timeout=None):
        if SCHED:
            SCHED.yield_point('wait')
            SCHED.block_until(lambda: self._f, 'wait')
        return self._f
class ShimThread:
    n = 0
    def __init__(self, target=None, args=(), kwargs=None, daemon=None, name=None):
        self._target = target; self._lt = None
    def start(self):
        ShimThread.n += 1
        self._lt = SCHED.spawn(self._target, 'T%d' % ShimThread.n)
        SCHED.yield_point('start')
    def is_alive(self):
        if SCHED and self._lt: SCHED.yield_point('is_alive')
        return self._lt is not None and self._lt.state != 'done'
    def join(self, timeout=None):
        if SCHED and self._lt:
            SCHED.block_until(lambda: self._lt.state == 'done', 'join')
class ShimThreading:
    Event = ShimEvent; Thread = ShimThread
class ShimTime:
    now = 0.0
    @staticmethod
    def time(): return ShimTime.now
    @staticmethod
    def sleep(s):
        if SCHED: SCHED.yield_point('sleep', voluntary=True)
