import sys, time
sys.path.insert(0, '/verif/design_probes')
from mini import *
import sismic.clock.clock as C
K = int(sys.argv[1])
class Src:
    def __init__(self): self.now = 0
    def __call__(self): return self.now
def harness(g):
    src = Src(); C.time = src
    clk = C.SimulatedClock()
    # reference model: (value, playing, speed)
    for k in range(K):
        d = fresh_real(g, 'd%d' % k); g.assume(d >= 0)
        a = fresh_real(g, 'a%d' % k); g.assume(a >= 0)
        before = clk.time
        playing, speed = clk._play, clk.speed
        src.now = src.now + d
        mid = clk.time
        # faithful: advances by speed * elapsed iff playing
        exp = before + (speed * d if playing else 0)
        if not prove(g, mid == exp): return ('faithful', k)
        op = choice(g, 'op%d' % k, 4)
        if op == 0: clk.start()
        elif op == 1: clk.stop()
        elif op == 2: clk.speed = a
        else:
            try:
                clk.time = a
                if not prove(g, clk.time == a): return ('assign', k)
            except ValueError:
                if not prove(g, a < mid): return ('spurious ValueError', k)
                if not prove(g, clk.time == mid): return ('changed', k)
        after = clk.time
        if not prove(g, after >= mid): return ('monotonic', k)
    return True
g = Engine(); t0 = time.time()
paths, res = g.explore(harness)
dt = time.time() - t0
print('K', K, 'paths', paths, 'violations', res, 'checks', g.checks, 'time %.2fs' % dt)
