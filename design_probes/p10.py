"""Probe: proxies through exec'd code, FrozenContext (__old__), pickle/deepcopy of an Interpreter (C08/C18)."""
import sys, pickle, copy, z3
sys.path.insert(0, '/verif/design_probes')
import mini
from mini import *
CUR = [None]
def _rebuild(kind, ser): return {'b': SymBool, 'i': SymInt, 'r': SymReal}[kind](CUR[0], z3.deserialize(ser))
for cls, k in ((SymBool, 'b'), (SymInt, 'i'), (SymReal, 'r')):
    cls.__reduce__ = (lambda k: lambda self: (_rebuild, (k, self.e.serialize())))(k)
    cls.__copy__ = lambda self: self
    cls.__deepcopy__ = lambda self, memo: self
from sismic.io import import_from_yaml
from sismic.interpreter import Interpreter
Y = '''statechart:
  name: p
  preamble: x = X0
  root state:
    name: r
    initial: A
    states:
    - name: A
      contract:
      - always: x >= __old__.x
      transitions:
      - event: e
        action: x = x + D
'''
def harness(g):
    CUR[0] = g
    x0 = g.fresh_int('x0'); d = g.fresh_int('d')
    it = Interpreter(import_from_yaml(Y), initial_context={'X0': x0, 'D': d})
    it.execute_once()
    snap = choice(g, 'snap', 3)
    it2 = it if snap == 0 else (pickle.loads(pickle.dumps(it)) if snap == 1 else copy.deepcopy(it))
    outs = []
    for i in (it, it2):
        i.queue('e')
        try: i.execute_once(); outs.append('ok')
        except Exception as e: outs.append(type(e).__name__)
    if outs[0] != outs[1]: return ('diverge', snap, outs)
    return True
g = Engine()
paths, res = g.explore(harness)
print('paths', paths, [(r, sorted((str(d), m[d]) for d in m.decls())) for r, m in res])
