"""Probe 1: real Interpreter.execute_once under CrossHair; symbolic guard bits, priorities, event pick."""
from typing import List, Tuple
from sismic.model import Statechart, CompoundState, BasicState, OrthogonalState, Transition
from sismic.interpreter import Interpreter

def build(p0: int, p1: int, p2: int):
    sc = Statechart('t')
    sc.add_state(CompoundState('root', initial='A'), None)
    sc.add_state(CompoundState('A', initial='A1'), 'root')
    sc.add_state(BasicState('A1'), 'A')
    sc.add_state(BasicState('A2'), 'A')
    sc.add_state(BasicState('B'), 'root')
    ts = [
        Transition('A1', 'A2', event='e', guard='G(0)', priority=p0),
        Transition('A1', 'B', event='e', guard='G(1)', priority=p1),
        Transition('A', 'B', event='e', guard='G(2)', priority=p2),
    ]
    for t in ts:
        sc.add_transition(t)
    return sc, ts

def check(g0: bool, g1: bool, g2: bool, p0: int, p1: int, p2: int, ev: int) -> bool:
    """
    pre: -1 <= p0 <= 1 and -1 <= p1 <= 1 and -1 <= p2 <= 1
    pre: 0 <= ev <= 1
    post: _
    """
    gs = [g0, g1, g2]
    sc, ts = build(p0, p1, p2)
    it = Interpreter(sc, initial_context={'G': lambda i: gs[i]})
    it.execute_once()
    it.queue('e' if ev == 0 else 'f')
    try:
        step = it.execute_once()
    except Exception as e:
        # nondeterminism iff g0 and g1 and p0 == p1 and event e
        return type(e).__name__ == 'NonDeterminismError' and bool(g0 and g1 and p0 == p1 and ev == 0)
    fired = [id(t) for t in step.transitions]
    exp = []
    if ev == 0:
        if g0 and (not g1 or p0 >= p1):
            exp.append(id(ts[0]))
        if g1 and (not g0 or p1 >= p0):
            exp.append(id(ts[1]))
        if not exp and g2:
            exp.append(id(ts[2]))
    return sorted(fired) == sorted(exp)
