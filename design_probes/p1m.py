import sys, time
sys.path.insert(0, '/verif/design_probes')
from mini import *
from p1 import build
from sismic.interpreter import Interpreter

def harness(g):
    gs = [g.fresh_bool('g%d' % i) for i in range(3)]
    ps = [g.fresh_int('p%d' % i) for i in range(3)]
    ev = g.fresh_int('ev')
    for p in ps: g.assume((p >= -1)); g.assume(p <= 1)
    g.assume(ev >= 0); g.assume(ev <= 1)
    g0, g1, g2 = gs; p0, p1, p2 = ps
    sc, ts = build(p0, p1, p2)
    it = Interpreter(sc, initial_context={'G': lambda i: gs[i]})
    it.execute_once()
    it.queue('e' if ev == 0 else 'f')
    try:
        step = it.execute_once()
    except Exception as e:
        return type(e).__name__ == 'NonDeterminismError' and bool(g0 and g1 and p0 == p1 and ev == 0)
    fired = [id(t) for t in step.transitions]
    exp = []
    if ev == 0:
        if g0 and (not g1 or p0 >= p1): exp.append(id(ts[0]))
        if g1 and (not g0 or p1 >= p0): exp.append(id(ts[1]))
        if not exp and g2: exp.append(id(ts[2]))
    return sorted(fired) == sorted(exp)

g = Engine()
t0 = time.time()
paths, res = g.explore(harness)
dt = time.time() - t0
print('paths', paths, 'violations', res, 'solver checks', g.checks, 'time %.2fs' % dt, '%.0f paths/s' % (paths / dt))
print(g.trace)
print(g.solver)
