import copy, io
import ruamel.yaml as yaml
from sismic.io import import_from_yaml
from sismic.exceptions import StatechartError
def base():
    return {'statechart': {'name': 'n', 'root state': {'name': 'root', 'initial': 'A', 'states': [
        {'name': 'A', 'transitions': [{'target': 'B', 'event': 'e'}]},
        {'name': 'B', 'initial': 'B1', 'states': [{'name': 'B1'}, {'name': 'H', 'type': 'shallow history', 'memory': 'B1'}]},
        {'name': 'P', 'parallel states': [{'name': 'P1'}, {'name': 'P2'}]},
        {'name': 'F', 'type': 'final'}]}}}
def dump(d):
    o = io.StringIO(); yaml.YAML(typ='safe', pure=True).dump(d, o); return o.getvalue()
faults = {}
def fault(name):
    def deco(f): faults[name] = f; return f
    return deco
R = lambda d: d['statechart']['root state']
@fault('duplicate name')
def _(d): R(d)['states'][1]['states'][0]['name'] = 'A'
@fault('transition from final')
def _(d): R(d)['states'][3]['transitions'] = [{'target': 'A'}]
@fault('transition from history')
def _(d): R(d)['states'][1]['states'][1]['transitions'] = [{'target': 'A'}]
@fault('unknown target')
def _(d): R(d)['states'][0]['transitions'][0]['target'] = 'nope'
@fault('history under orthogonal')
def _(d): R(d)['states'][2]['parallel states'].append({'name': 'H2', 'type': 'deep history'})
@fault('history as root')
def _(d): d['statechart']['root state'] = {'name': 'root', 'type': 'shallow history'}
@fault('initial not child')
def _(d): R(d)['initial'] = 'B1'
@fault('initial unknown')
def _(d): R(d)['initial'] = 'nope'
@fault('memory self')
def _(d): R(d)['states'][1]['states'][1]['memory'] = 'H'
@fault('memory non-sibling')
def _(d): R(d)['states'][1]['states'][1]['memory'] = 'A'
@fault('memory unknown')
def _(d): R(d)['states'][1]['states'][1]['memory'] = 'nope'
@fault('unknown key state')
def _(d): R(d)['states'][0]['colour'] = 'red'
@fault('unknown key transition')
def _(d): R(d)['states'][0]['transitions'][0]['colour'] = 'red'
@fault('unknown key top')
def _(d): d['statechart']['colour'] = 'red'
@fault('unknown key outer')
def _(d): d['colour'] = 'red'
@fault('unknown type')
def _(d): R(d)['states'][0]['type'] = 'weird'
@fault('unknown priority')
def _(d): R(d)['states'][0]['transitions'][0]['priority'] = 'medium'
@fault('priority float')
def _(d): R(d)['states'][0]['transitions'][0]['priority'] = 1.5
@fault('priority list')
def _(d): R(d)['states'][0]['transitions'][0]['priority'] = [1]
@fault('both states and parallel')
def _(d): R(d)['parallel states'] = [{'name': 'Q'}]
@fault('missing name')
def _(d): del R(d)['states'][0]['name']
@fault('missing sc name')
def _(d): del d['statechart']['name']
@fault('missing root')
def _(d): del d['statechart']['root state']
@fault('states not list')
def _(d): R(d)['states'] = {'name': 'A'}
@fault('transitions not list')
def _(d): R(d)['states'][0]['transitions'] = {'target': 'B'}
@fault('contract unknown key')
def _(d): R(d)['states'][0]['contract'] = [{'sometimes': 'x'}]
@fault('contract not list')
def _(d): R(d)['states'][0]['contract'] = {'before': 'x'}
@fault('children on final')
def _(d): R(d)['states'][3]['states'] = [{'name': 'FF'}]
@fault('transition on parent to state removed')
def _(d): R(d)['states'][0]['transitions'][0]['target'] = None
@fault('top not dict')
def _(d): d['statechart'] = [1, 2]
@fault('name dict')
def _(d): R(d)['states'][0]['name'] = {'a': 1}
@fault('initial on orthogonal')
def _(d): R(d)['states'][2]['initial'] = 'P1'
@fault('empty states list')
def _(d): R(d)['states'][1]['states'] = []
print('valid ->', type(import_from_yaml(dump(base()))).__name__)
for n, f in faults.items():
    d = base(); f(d)
    try: r = import_from_yaml(dump(d)); out = 'ACCEPTED'
    except StatechartError as e: out = 'StatechartError'
    except Exception as e: out = 'OTHER %s: %s' % (type(e).__name__, str(e)[:60])
    print('%-40s %s' % (n, out))
