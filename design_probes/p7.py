"""Probe: C05 queue kernel with symbolic real delays / clock advances through real Interpreter API."""
import sys, time, z3
sys.path.insert(0, '/verif/design_probes')
from mini import *
from sismic.model import Statechart, CompoundState, BasicState, Transition, Event
from sismic.interpreter import Interpreter
K = int(sys.argv[1])
def chart():
    sc = Statechart('q')
    sc.add_state(CompoundState('root', initial='A'), None)
    sc.add_state(BasicState('A'), 'root')
    # reacts to 'i' by sending internal event with symbolic delay; others unmatched
    sc.add_transition(Transition('A', None, event='s', action='send("n", delay=D[len(L)]); L.append(1)'))
    return sc
def harness(g):
    sc = chart()
    D = [fresh_real(g, 'D%d' % i) for i in range(K)]
    for d in D: g.assume(d >= 0)
    it = Interpreter(sc, initial_context={'D': D, 'L': []})
    it.execute_once()
    pending = []   # (due, internal?, seq, name)
    seq = 0
    for k in range(K):
        op = choice(g, 'op%d' % k, 3)
        if op == 0:   # queue external with symbolic delay
            d = fresh_real(g, 'd%d' % k); g.assume(d >= 0)
            nm = 's' if choice(g, 'nm%d' % k, 2) else 'x%d' % k
            it.queue(Event(nm, delay=d, tag=k))
            pending.append((it.time + d, False, seq, nm, k)); seq += 1
        elif op == 1:  # advance clock
            a = fresh_real(g, 'a%d' % k); g.assume(a >= 0)
            it.clock.time = it.clock.time + a
        else:
            nL = len(it.context['L'])
            step = it.execute_once()
            now = it.time
            if len(it.context['L']) > nL:
                pending.append((now + D[nL], True, seq, 'n', None)); seq += 1
                sent = pending[-1]
            else: sent = None
            ev = step.event if step else None
            cand = [p for p in pending if p is not sent]
            if ev is None:
                for p in cand:
                    if not prove(g, p[0] > now): return ('due event not consumed', k)
            else:
                # identify
                internal = type(ev).__name__ == 'InternalEvent'
                match = [p for p in cand if p[1] == internal and p[3] == ev.name and (internal or p[4] == ev.tag)]
                if not match: return ('unknown event', k)
                me = match[0]
                if not prove(g, me[0] <= now): return ('consumed before due', k)
                for p in cand:
                    if p is me: continue
                    if p[1] and not internal:
                        if not prove(g, p[0] > now): return ('external before due internal', k)
                    if p[1] == internal:
                        # p must not precede me: (due, seq) order
                        if p[2] < me[2]:
                            if not prove(g, p[0] > me[0]): return ('FIFO violated', k)
                        else:
                            if not prove(g, p[0] >= me[0]): return ('overtaken by later-due', k)
                pending.remove(me)
    return True
g = Engine(); t0 = time.time()
paths, res = g.explore(harness)
print('K', K, 'paths', paths, 'viol', res, 'checks', g.checks, 'time %.1fs' % (time.time() - t0))
