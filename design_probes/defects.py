import pickle, copy
from sismic.model import *
from sismic.model import Statechart
from sismic.interpreter import Interpreter
from sismic.io import import_from_yaml, export_to_yaml
from sismic.exceptions import *
# (a) rename internal
sc = Statechart('a'); sc.add_state(CompoundState('r', initial='A'), None); sc.add_state(BasicState('A', on_entry='n = n + 1 if "n" in dir() else 1'), 'r')
t = Transition('A', None, event='e'); sc.add_transition(t)
sc.rename_state('A', 'B'); print('(a) internal after rename:', t.internal, t.source, t.target)
# (b) eq
s1 = BasicState('A', on_entry='x=1'); s2 = BasicState('A', on_entry='x=1'); print('(b) equal states ==:', s1 == s2)
# (c) pickle __old__
y = '''statechart:
  name: p
  preamble: x = 0
  root state:
    name: r
    initial: A
    states:
    - name: A
      contract:
      - always: x >= __old__.x
      transitions:
      - event: e
        action: x += 1
'''
it = Interpreter(import_from_yaml(y)); it.execute_once()
it2 = pickle.loads(pickle.dumps(it)); it3 = copy.deepcopy(it)
for nm, i in (('orig', it), ('pickled', it2), ('deepcopied', it3)):
    try:
        i.queue('e'); i.execute_once(); print('(c)', nm, 'ok', i.context['x'])
    except Exception as e: print('(c)', nm, type(e).__name__, str(e)[:80])
# (d) exit order vs declaration order
def par(order):
    sc = Statechart('d'); sc.add_state(CompoundState('r', initial='P'), None); sc.add_state(OrthogonalState('P'), 'r'); sc.add_state(BasicState('Z'), 'r')
    for n in order: sc.add_state(BasicState(n), 'P')
    sc.add_transition(Transition('P', 'Z', event='e'))
    it = Interpreter(sc); it.execute_once(); it.queue('e'); return it.execute_once().exited_states
print('(d) exits decl [p1,p2]:', par(['p1', 'p2']), ' decl [p2,p1]:', par(['p2', 'p1']))
# (e) rotate atomicity
sc = Statechart('e'); sc.add_state(CompoundState('r', initial='A'), None); sc.add_state(BasicState('A'), 'r'); sc.add_state(BasicState('B'), 'r')
t = Transition('A', 'B'); sc.add_transition(t)
try: sc.rotate_transition(t, new_source='B', new_target='nope')
except StatechartError: print('(e) after failed rotate:', t.source, t.target)
# move into basic
sc.move_state('A', 'B'); print('(e2) moved A under basic B; children of B:', sc.children_for('B'), 'validate:', sc.validate(), 'r.initial =', sc.state_for('r').initial)
# (f) runner.execute
from sismic.runner import AsyncRunner
sc = Statechart('f'); sc.add_state(CompoundState('r', initial='A'), None); sc.add_state(BasicState('A'), 'r'); sc.add_state(BasicState('B'), 'r')
sc.add_transition(Transition('A', 'B', event='e')); sc.add_transition(Transition('B', 'A', event='e'))
it = Interpreter(sc); it.queue('e', 'e', 'e')
r = AsyncRunner(it); got = r.execute(); print('(f) execute() returned', len(got), 'steps; interpreter config', it.configuration, 'remaining queue', len(it._external_queue))
