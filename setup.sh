#!/bin/sh
# Offline bootstrap of the overlay venv used by every check (z3-solver + crosshair on top of /venv).
set -e
cd "$(dirname "$0")"
V=.venv
if [ ! -x "$V/bin/python" ] || ! "$V/bin/python" -c "import z3, sismic" >/dev/null 2>&1; then
  rm -rf "$V"
  /venv/bin/python -m venv "$V"
  SP=$("$V/bin/python" -c "import sysconfig; print(sysconfig.get_paths()['purelib'])")
  printf "import site; site.addsitedir('/venv/lib/python3.12/site-packages')\n/repo\n" > "$SP/_overlay.pth"
  PIP_NO_INDEX=1 "$V/bin/pip" install -q --no-index --find-links /opt/veriftools/wheels z3-solver crosshair-tool >/dev/null
fi
"$V/bin/python" -c "import z3, sismic, os; assert os.path.realpath(sismic.__file__).startswith('/repo/'), sismic.__file__; print('verif venv ok: z3', z3.get_version_string())"
