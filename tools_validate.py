import json, sys, jsonschema
sch = json.load(open('/root/.vp/EVIDENCE.schema.json'))
for f in sys.argv[1:]:
    jsonschema.validate(json.load(open(f)), sch); print('valid', f)
